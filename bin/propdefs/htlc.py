"""HTLC: C03, C04 and the expiry-queue clauses of C13 (HTLC.tla / HTLCTrace.tla / harness/cmd/htlc)."""
from props import ModuleCheck, T, bundled

HTLC_CLAUSES_C03 = ["C03_StateOrder", "C03_ClaimSound", "C03_ClaimComplete", "C03_RejectionsInert",
                    "C03_RefundAtExpiry", "C03_ExactlyOnce", "C03_ScaleExact"]
HTLC_CLAUSES_C04 = ["C04_Escrow", "C04_InOut", "C04_Current", "C04_Limit", "C04_Window", "C04_ScaleExact"]
# the HTLC part of C13 (aggregated by the lead): clause names as they appear in CLAUSE-FAIL lines
C13_CLAUSES_HTLC = ["C13_QueueSound", "C13_QueueComplete", "C13_OnceOnTime", "C13_NoHalt"]
# antecedents the HTLC part of C13 must exercise (expiry processing of every kind, several per height,
# claims in the last block before / in the block of the expiry, fast-forwarded empty blocks)
C13_REQUIRED = ["refund_plain", "refund_in", "refund_out", "refund_many", "refund_dozens", "claim_last_block",
                "claim_in_expiry_block", "skip"]
# magnitude tier: antecedents that must be exercised (vacuity) — every stratum of the single amounts, creates /
# claims / refunds / limit rejections at scale, and limit checks whose operands fit 64 bits while their sum does not
MAG_STRATA = ["mag_2p31_32", "mag_2p32_53", "mag_2p53_63", "mag_2p63_64", "mag_2p64_65", "mag_2p96", "mag_2p127_129"]
# negative probing (round 7): antecedents exercised by scenarios/htlc_probe.ndjson (and its epilogue) on every run
PROBE_REQUIRED_C03 = ["probe_id_upper_ok", "probe_sec_upper_ok", "probe_id_hashlock", "probe_id_prefix", "probe_id_swapped",
                      "probe_sec_hashlock", "probe_sec_id", "claim_closed_by_recipient", "claim_closed_by_sender",
                      "claim_closed_by_stranger", "create_dup_open", "create_dup_completed", "create_dup_refunded",
                      "create_dup_flipped", "create_same_lock_other_amt", "create_shaped_plain_ok", "claim_shaped_plain_ok",
                      "refund_shaped_plain", "create_zero_rej", "create_to_foreign_escrow_ok",
                      "claim_to_foreign_escrow_ok", "closing_claim_rej", "probe_tail"]
PROBE_REQUIRED_C04 = ["htlt_plain_coin_rej", "htlt_shaped_coin_rej", "htlt_shaped_while_supply", "htlt_multicoin_rej",
                      "create_shaped_plain_ok", "deputy_unsignable", "no_assets_block", "asset_relisted",
                      "asset_kind_toggled", "limit_at_supply", "window_exact_end", "window_one_before_end",
                      "available_rej", "closing_claim_rej", "probe_tail"]
# diagnostic clauses (specification beyond the listed properties; reported, never a verdict)
DIAGNOSTIC_HTLC = ["X03_CreateRecord", "X04_Admission", "X04_InFlight", "X04_ParamsStored",
                   "X12_HTLC_Queue", "X12_HTLC_ZeroQueue"]

# model <-> chain: height compression 50 (model lock k = real lock 50k, model block = 50 real blocks)
HTLC_GEN_CFG = "compress=50,period=100,users=2,initbal=5"

HTLC_RND = T(
    [dict(n=6, len=40, procs=6, cfg="users=2"),
     dict(n=6, len=40, procs=6, cfg="users=3,limit1=6,limit2=6,tbl2=4,period=60,initbal=6"),
     # magnitude tier (exact scaling): history i runs at scale K[i mod 12] of the "quick" scale set
     dict(n=12, len=25, procs=1, cfg="users=2,scales=quick"),
     dict(n=12, len=25, procs=1, cfg="users=3,limit1=6,limit2=6,tbl2=4,period=60,initbal=6,scales=quick")],
    [dict(n=60, len=50, procs=7, cfg="users=2"),
     dict(n=60, len=50, procs=7, cfg="users=3,limit1=6,limit2=6,tbl2=4,period=60,initbal=6"),
     dict(n=36, len=40, procs=3, cfg="users=2,scales=thorough"),
     dict(n=36, len=40, procs=3, cfg="users=3,limit1=6,limit2=6,tbl2=4,period=60,initbal=6,scales=thorough"),
     # dozens of contracts per expiry height (C13); the quick tier has scenarios/htlc_dozens.ndjson
     dict(n=6, len=40, procs=6, cfg="users=3,initbal=60,flood=40,limit1=12")])
# multi-message transactions (runs of one signer's messages delivered as one real transaction)
bundled(HTLC_RND)
# second generator mode (round 7, negative probing): GenSpecP = the first mode plus identifiers / coins of the wrong kind
# (NextP), every behaviour ending with four events the specification REJECTS (a deep state probed with operations that
# must fail); the replay's epilogue is computed from the real chain state and closes with a claim on every contract
HTLC_GEN = T([dict(cfg="GEN_HTLC.cfg", num=8, depth=26, seeds=8),
              dict(cfg="GEN_HTLC_probe.cfg", num=5, depth=26, seeds=4)],
             [dict(cfg="GEN_HTLC.cfg", num=40, depth=30, seeds=14),
              dict(cfg="GEN_HTLC_probe.cfg", num=40, depth=30, seeds=10),
              dict(cfg="GEN_HTLC_probe.cfg", num=40, depth=20, seeds=4)])
HTLC_SCN = [dict(file="scenarios/htlc_boundary.ndjson", cfg="users=2"),
            dict(file="scenarios/htlc_limits.ndjson", cfg="users=2"),
            dict(file="scenarios/htlc_asset_removed.ndjson", cfg="users=2"),
            # F31: a supply limit lowered below the supply already issued (C12: the export is refused at InitChain)
            dict(file="scenarios/htlc_limit_lowered.ndjson", cfg="users=2"),
            # regression of H1 (F28/F28b, fixed by /repo 20cb755): recipient = the htlc module account is refused
            dict(file="scenarios/htlc_to_module.ndjson", cfg="users=2"),
            # asset life cycle: switched off / swap range, lock range, fee, deputy changed with transfers in flight;
            # equal block times, a step far beyond the period
            dict(file="scenarios/htlc_lifecycle.ndjson", cfg="users=2,limit1=8"),
            # magnitude tier: the limit / life-cycle / boundary scenarios once per scale of the "quick" set (12 chains
            # each; every amount, balance, limit, fee on chain = model value * K, logged / K)
            dict(file="scenarios/htlc_magnitude.ndjson", cfg="users=2,scales=quick"),
            dict(file="scenarios/htlc_limits.ndjson", cfg="users=2,scales=quick"),
            dict(file="scenarios/htlc_lifecycle.ndjson", cfg="users=2,limit1=8,scales=quick"),
            dict(file="scenarios/htlc_boundary.ndjson", cfg="users=2,scales=quick"),
            # negative probing / unusual inputs (round 7): every antecedent of PROBE_REQUIRED, on every run — ids and
            # secrets of the wrong kind on open and closed contracts, re-creation of open / completed / refunded
            # contracts, transfers in ordinary and asset-SHAPED coins, a module account as deputy, limit = recorded
            # supply, kind toggled, all assets delisted and listed again, the limit window one second before / at its end
            dict(file="scenarios/htlc_probe.ndjson", cfg="users=2"),
            # 32 contracts refunded by one begin blocker
            dict(file="scenarios/htlc_dozens.ndjson", cfg="users=3,initbal=20,limit1=8")]
HTLC_MC = T([dict(cfg="MC_HTLC.cfg", timeout=900, heap="4g"), dict(cfg="MC_HTLC_assets.cfg", timeout=900, heap="4g"),
             dict(cfg="MC_HTLC_window.cfg", timeout=900, heap="4g")],
            [dict(cfg="MC_HTLC_big.cfg", timeout=3000, heap="6g"), dict(cfg="MC_HTLC_assets_big.cfg", timeout=3000, heap="6g"),
             dict(cfg="MC_HTLC_window_big.cfg", timeout=3000, heap="6g"),
             dict(cfg="MC_HTLC_both_big.cfg", timeout=3400, heap="6g"),
             # asset life cycle (switch off, tighten ranges, fee, deputy change with transfers in flight)
             dict(cfg="MC_HTLC_life_big.cfg", timeout=900, heap="4g"),
             # a contract payable to the module account: refused at create since /repo 20cb755 (H1 fixed)
             dict(cfg="MC_HTLC_H1fixed.cfg", timeout=900, heap="4g")])

# histories recorded (VERIF_RECORD_DIR) for the cross-module checks C11 / C12
RECORD = [dict(binary="htlc", n=T(3, 12), len=40, cfg="users=3,limit1=6,limit2=6,tbl2=4,period=60,initbal=6" + ",bundle=30")]

HTLC_ASSUME = ["TLC 1.8, SANY, CommunityModules Json", "Go toolchain, cosmos-sdk x/bank, x/auth",
               "harness projection functions",
               "hashing (secret, hash lock, contract id) is done by the harness; the specification models the "
               "binding secret/timestamp/contract only",
               "height compression for TLC-generated behaviours (model lock k = real lock 50k, DESIGN 4.2); "
               "random and scripted histories run at real block granularity",
               "magnitude tier by exact scaling: HTLC arithmetic on amounts is additive/comparative only, so a run in "
               "which every amount, balance, limit and fee is K times the model value behaves like the model run; the "
               "harness logs amount / K and counts any remainder as inexact (clause C0x_ScaleExact)",
               "no account donates to the htlc module account (the application wiring blocks it as a recipient "
               "since /repo 20cb755, which also fixed finding H1 / F28)"]

PROPS = {
    "C03": ModuleCheck("htlc", "HTLC.tla", "HTLCTrace.tla", "HTLCTrace.cfg", HTLC_CLAUSES_C03,
                       HTLC_MC, HTLC_GEN, HTLC_RND, scenarios=HTLC_SCN,
                       required=["create_plain_ok", "create_in_ok", "create_out_ok", "create_multicoin", "create_dup",
                                 "claim_plain_ok", "claim_in_ok", "claim_out_ok", "claim_by_third_party",
                                 "claim_wrong_secret", "claim_other_ts", "claim_other_contract", "claim_second",
                                 "claim_after_refund", "claim_in_expiry_block", "claim_last_block",
                                 "refund_plain", "refund_in", "refund_out", "refund_many", "create_to_module_rej",
                                 "scaled_claim", "scaled_refund"] + MAG_STRATA + PROBE_REQUIRED_C03,
                       gen_cfg=HTLC_GEN_CFG, assumptions=HTLC_ASSUME),
    "C04": ModuleCheck("htlc", "HTLC.tla", "HTLCTrace.tla", "HTLCTrace.cfg", HTLC_CLAUSES_C04,
                       HTLC_MC, HTLC_GEN, HTLC_RND, scenarios=HTLC_SCN,
                       required=["create_plain_ok", "create_in_ok", "create_out_ok", "claim_in_ok", "claim_out_ok",
                                 "refund_plain", "refund_in", "refund_out", "window_reset", "window_accum",
                                 "limit_rej", "time_limit_rej", "params_update", "limit_after_update",
                                 "asset_removed_inflight", "claim_in_rej", "create_to_module_rej",
                                 "inactive_rej", "amount_range_rej", "asset_lock_range_rej", "below_fee_rej",
                                 "changed_inflight", "deputy_changed_inflight", "claim_inactive_ok",
                                 "refund_unsupported", "claim_new_deputy", "dt_zero", "dt_beyond_period",
                                 "scaled_create_ok", "scaled_limit_rej", "scaled_claim", "scaled_sum64_rej"] + MAG_STRATA
                                + PROBE_REQUIRED_C04,
                       gen_cfg=HTLC_GEN_CFG, assumptions=HTLC_ASSUME),
}

TEXT = {
    "C03": dict(
        design="DESIGN.md 8 (C03), 3, 4.2",
        text="HTLC.tla transcribes create (ordinary, incoming, outgoing), claim, the begin-block refund of the expiry "
             "queue and the parameter update branch by branch; secrets are abstract (a claim opens a contract iff it "
             "presents the contract's secret and the hash lock was built with the contract's timestamp), ids are "
             "opaque with the duplicate check as tuple equality.  TLC checks state order, claim soundness and "
             "completeness, inert rejections, refund exactly in the expiry block to the sender, and exactly-once "
             "escrow accounting exhaustively on bounded universes (three configurations), then generates behaviours "
             "that are executed on the real application (real ABCI path, height compression 50) together with seeded "
             "random histories at real block granularity (claims in the last block before and in the block of the "
             "expiry, several contracts per height) and scripted scenarios; every event of every real trace is "
             "validated by TLC against the clauses (verdict) and the specification's own step function (drift).  "
             "Bounded exhaustive at design level, sampled but clause-by-clause with full balance sheets at code level.",
        note="Trusted: TLC/SANY/CommunityModules Json, Go toolchain, cosmos-sdk bank/auth, the harness projection and "
             "its sha256 binding of secret names to hash locks and ids.  Time locks on chain are >= 50 blocks: empty "
             "blocks are executed for real and logged as one Skip event (specified as the n-fold begin block).  "
             "Finding H1 (F28/F28b, a contract payable to the htlc module account stranded its coins) is fixed by "
             "/repo 20cb755 (module accounts blocked): its scenario stays as a regression, the ghost gh.stranded "
             "and the exact why = to_escrow attribution stay in place.  Round 7 (negative probing): a second generator "
             "mode ends every behaviour with four rejected events; ids / secrets of the wrong kind (hash lock as id, "
             "padded prefix, swapped halves, id or hash lock as secret, upper-case hex), re-creation of open / completed / "
             "refunded contracts, transfers in ordinary and asset-shaped coins, keyless recipients and deputies; the "
             "epilogue is computed from the real chain state and closes with a claim on every contract "
             "(findings/htlc.md, last section)."),
    "C04": dict(
        design="DESIGN.md 8 (C04), 3, 4.2",
        text="Same specification and traces as C03; state clauses after every event (hence at every block boundary): "
             "escrow = open ordinary + open outgoing contracts per denom; recorded incoming/outgoing = sums over open "
             "transfers; current = minted - burned (ghosts from observed bank-supply changes) = bank supply = completed "
             "incoming - completed outgoing; while an asset's parameters are unchanged current + incoming stays within "
             "the limit and the time-limited counter within the time-based limit and equal to the incoming claims of "
             "the running window (ghost windowSum); the window advances by the block-time difference and resets at "
             "the period.  Parameter changes go through the authority route (MsgUpdateParams) between blocks, "
             "including removing an asset with transfers in flight.",
        note="As C03.  Asset denoms have no genesis supply.  Model limits are small integers (<= 12); the window is "
             "driven by block-time steps of 0..5000 s against periods of 5..120 s.  Magnitude tier by exact scaling: "
             "the limit / life-cycle / boundary scenarios and 24 random histories run with every amount, balance, "
             "limit and fee multiplied by K (12 scales from 2^30 to 2^125, odd, around 2^63 / 2^64 such that "
             "operands fit a word and sums do not) and are logged divided by K, so the same clauses decide the real "
             "code at those magnitudes; antecedents mag_* / scaled_* count the strata (clause_antecedents)."),
}
