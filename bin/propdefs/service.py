"""Service: C07, C08 and the service part of C13 (Service.tla / ServiceTrace.tla / harness/cmd/service)."""
import json, os
from props import ModuleCheck, T, bundled

# Finding F36 (a module-service call stored the sum of all owner tallies under the EMPTY owner) was repaired in
# /repo d8189b9; FixF36 = TRUE in every Service cfg, the scenario is a regression and the random driver calls the
# module service freely (driver cfg f36=1).
F36_KNOWN = True


SERVICE_CLAUSES_C07 = ["C07_DepositEscrow", "C07_RequestEscrow", "C07_OwnerTally", "C07_Charge", "C07_Answer",
                       "C07_Expire", "C07_Withdraw", "C07_Frame", "C07_ScaleExact", "Rejected_NoEffect",
                       # history-based twins (audit): request records never change after issue; withdrawals arrive
                       # at the address the owner last SET
                       "C07_RequestRecords", "C07_WithdrawTo"]
SERVICE_CLAUSES_C08 = ["C08_OneOutcome", "C08_RespondGuards", "C08_OneShot", "C08_CallFresh", "C08_Schedule", "C08_Authority",
                       "C08_Callback", "C08_Funds",
                       # history-based twins (audit): antecedents from accepted events / heights, not from the module's
                       # active markers, queues, state flags or stored consumer
                       "C08_OneOutcomeH", "C08_AuthorityH", "C08_ScheduleH", "C08_BatchDue"]
# clause names of ServiceTrace.tla that belong to C13 (aggregated by the lead)
C13_CLAUSES_SERVICE = ["C13_QueueSound", "C13_QueueComplete", "C13_OnceOnTime", "C13_NoHalt", "C13_QueueH", "C08_BatchDue"]

# driver configuration matching the constants of MC_Service.cfg / GEN_Service.cfg
SERVICE_GEN_CFG = "users=4,init=30,taxnum=1,taxden=2,slashnum=1,slashden=2,maxtimeout=3,minmult=1,mindep=2,wait=2"
SERVICE_MC_CFG = "users=3,init=12,taxnum=1,taxden=2,slashnum=1,slashden=2,maxtimeout=2,minmult=1,mindep=2,wait=2"
SERVICE_SCN_CFG = "users=3,init=50,taxnum=1,taxden=2,slashnum=1,slashden=2,maxtimeout=2,minmult=1,mindep=2,wait=2"

SERVICE_EXT_CFG = "users=4,init=60,initbtc=20,taxnum=1,taxden=2,slashnum=1,slashden=2,maxtimeout=3,minmult=2,mindep=3,wait=3"
SERVICE_BTC_CFG = "users=3,init=50,initbtc=20,taxnum=1,taxden=2,slashnum=1,slashden=2,maxtimeout=2,minmult=1,mindep=2,wait=2"
SERVICE_BTC_RND = "users=4,init=60,initbtc=30,taxnum=1,taxden=4,slashnum=1,slashden=2,btc=1" + (",f36=1" if F36_KNOWN else "")
SERVICE_MULTI_CFG = "users=3,init=50,taxnum=1,taxden=2,slashnum=0,slashden=1,maxtimeout=2,minmult=1,mindep=2,wait=2"

SERVICE_RND = T(
    [dict(n=4, len=30, procs=5, cfg="users=4,init=40,taxnum=1,taxden=4,slashnum=1,slashden=2"),
     dict(n=4, len=30, procs=5, cfg="users=5,init=100,taxnum=1,taxden=10,slashnum=1,slashden=10,maxtimeout=4,minmult=2,mindep=3,maxctx=6"),
     dict(n=4, len=25, procs=4, cfg="users=3,init=25,taxnum=1,taxden=2,slashnum=1,slashden=1,minmult=1,mindep=0,wait=3")],
    [dict(n=40, len=40, procs=7, cfg="users=4,init=40,taxnum=1,taxden=4,slashnum=1,slashden=2"),
     dict(n=40, len=40, procs=7, cfg="users=5,init=100,taxnum=1,taxden=10,slashnum=1,slashden=10,maxtimeout=4,minmult=2,mindep=3,maxctx=6"),
     dict(n=40, len=30, procs=6, cfg="users=3,init=25,taxnum=1,taxden=2,slashnum=1,slashden=1,minmult=1,mindep=0,wait=3")])
# multi-message transactions (runs of one signer's messages delivered as one real transaction)
bundled(SERVICE_RND)
# two fee denoms, exchange rate, module-service calls, owner-wide withdrawals
SERVICE_RND["quick"].append(dict(n=5, len=30, procs=3, cfg=SERVICE_BTC_RND))
SERVICE_RND["thorough"].append(dict(n=30, len=40, procs=6, cfg=SERVICE_BTC_RND))
# GEN_Service_probe (round 7): the kind of every event is drawn first (block ends, rate changes, answers, consumer and
# provider commands each get their share, so behaviours are deep), the prefix is accepted events only and the last
# four events are operations the specification REJECTS (every message type x every object that ever existed, removed
# ones included, x every role x ids spelt differently / of the wrong length x coins of the wrong denom); two-denom
# universe with a settable exchange rate.  The harness then runs its epilogue from the real state.
SERVICE_PROBE_CFG = "users=4,init=30,initbtc=6,raten=2,rated=1,taxnum=1,taxden=2,slashnum=1,slashden=2,maxtimeout=3,minmult=1,mindep=2,wait=2"
SERVICE_GEN = T([dict(cfg="GEN_Service.cfg", num=7, depth=20, seeds=3),
                 dict(cfg="GEN_Service_probe.cfg", num=5, depth=28, seeds=4, driver_cfg=SERVICE_PROBE_CFG)],
                [dict(cfg="GEN_Service.cfg", num=50, depth=26, seeds=14),
                 dict(cfg="GEN_Service_probe.cfg", num=30, depth=32, seeds=12, driver_cfg=SERVICE_PROBE_CFG, timeout=3000)])
SERVICE_SCN = [dict(file="scenarios/service_cover.ndjson", cfg=SERVICE_SCN_CFG),   # every required antecedent
               dict(file="scenarios/service_F4.ndjson", cfg=SERVICE_SCN_CFG),
               dict(file="scenarios/service_F21.ndjson", cfg=SERVICE_SCN_CFG),
               dict(file="scenarios/service_F20.ndjson", cfg=SERVICE_SCN_CFG),   # regression: fixed by 6da0f9d
               # several contexts of one consumer due in one end-block, funds for two of them (handling order matters)
               dict(file="scenarios/service_multictx_funds.ndjson", cfg=SERVICE_MULTI_CFG),
               # refund timing at the boundary, re-enable with / without deposit, min deposit vs price and rate,
               # UpdateRequestContext field by field, non-base-denom prices, module-service calls
               dict(file="scenarios/service_ext.ndjson", cfg=SERVICE_EXT_CFG),
               dict(file="scenarios/service_modsvc.ndjson", cfg=SERVICE_BTC_CFG)]
# round 7: the swallowed errors / early exits of the end-blocker and objects in unusual life-cycle states, on every run:
# a request priced in the second denom expires after the exchange rate was taken away (Slash cannot compute the
# minimum deposit), requests expire on a disabled and on a refunded binding, pause / start / kill with a request in
# flight, commands on killed and on removed contexts, answers to cleaned requests, provider commands in the wrong
# binding state and by the wrong owner, ids in lower case / of the wrong length, deposits and fee caps of the wrong denom
SERVICE_SCN.append(dict(file="scenarios/service_probe.ndjson", cfg=SERVICE_BTC_CFG))
# two creations in ONE transaction (same tx hash, creation index 0 and 1), two answers in one transaction, a
# two-call transaction whose second call fails (both rolled back: TxFailed), three creations in one transaction
SERVICE_SCN.append(dict(file="scenarios/service_bundle.ndjson", cfg=SERVICE_SCN_CFG + ",bundle=100"))
# regression: owner tally in two denoms (finding F35, fixed by a72912e)
SERVICE_SCN.append(dict(file="scenarios/service_F35.ndjson", cfg=SERVICE_BTC_CFG))
# regression: F40 (partial debit of a multi-denom batch fee in the end-blocker, fixed in /repo)
SERVICE_SCN.append(dict(file="scenarios/service_F40.ndjson", cfg="users=4,init=60,initbtc=30,taxnum=1,taxden=4,slashnum=1,slashden=2,btc=1,f36=1"))
SERVICE_PENDING = [dict(file="scenarios/service_F36.ndjson", cfg=SERVICE_BTC_CFG)]
if F36_KNOWN:
    SERVICE_SCN += SERVICE_PENDING
# MC_Service_D: a provider priced in a denom that needs an exchange rate (no feed: context paused; was F20), 5 heights
SERVICE_MC = T([dict(cfg="MC_Service.cfg", timeout=1500, heap="4g"), dict(cfg="MC_Service_D.cfg", timeout=900, heap="4g")],
               # thorough: 9 heights / timeouts 1-2 (one context); two concurrent contexts (rank orders, consumer
               # funds shared); binding operations under a shared owner; the F20 universe
               [dict(cfg="MC_Service_big.cfg", timeout=3400, heap="6g"), dict(cfg="MC_Service_two.cfg", timeout=3000, heap="6g"),
                dict(cfg="MC_Service_bind.cfg", timeout=1500, heap="4g"), dict(cfg="MC_Service_D.cfg", timeout=900, heap="4g"),
                # two fee denoms under one owner with an exchange rate (regression universe of F35)
                dict(cfg="MC_Service_E.cfg", timeout=1500, heap="4g")])
# diagnostic clauses (reported under "other", never part of a verdict)
SERVICE_DIAGNOSTIC = ["X07_RefundTiming", "X07_EnableDisable", "X07_MinDeposit", "X07_Eligible", "X07_WithdrawAll",
                      "X08_Update", "X08_Create", "X08_ModuleCall", "Idx_Active"]

# histories recorded for the cross-module checks C11 / C12: plain transactions only (module-owned contexts
# are driven by keeper calls from the harness' observation hook, which a byte-for-byte replay cannot repeat)
RECORD = [dict(binary="service", n=T(3, 12), len=30, cfg="users=4,init=40,taxnum=1,taxden=4,slashnum=1,slashden=2,mods=0,bundle=30"),
          # four end-blocks in which 4-6 contexts of one consumer fall due with funds for exactly two of them:
          # the order in which the end-blocker handles due contexts decides who is charged and who is paused
          dict(binary="service", mode="replay", **{"in": "scenarios/service_multictx_funds.ndjson"}, n=1, len=1,
               cfg=SERVICE_MULTI_CFG)]

_ASSUME = ["TLC 1.8, SANY, CommunityModules Json", "Go toolchain, cosmos-sdk x/bank",
           "harness projection functions (raw prefix scans with the exported key constructors)",
           "discounts n/4, tax and slash fractions with denominators dividing 10^18 (exact 18-decimal Mul, DESIGN 4.2)",
           "module callbacks observed through a harness-owned callback module driven by carrier transactions"]

PROPS = {
    "C07": ModuleCheck("service", "Service.tla", "ServiceTrace.tla", "ServiceTrace.cfg", SERVICE_CLAUSES_C07,
                       SERVICE_MC, SERVICE_GEN, SERVICE_RND, scenarios=SERVICE_SCN,
                       required=["bind_ok", "charge", "discount", "respond_ok", "tax", "expire", "slash",
                                 "withdraw_ok", "refund_ok", "enable_ok", "funds_pause",
                                 # round 7 (scenarios/service_probe.ndjson exercises each of them on every run)
                                 "slash_norate", "expire_unavailable", "expire_refunded", "rate_gone_inflight",
                                 "rate_changed_inflight", "wrong_denom", "refund_again", "refund_early",
                                 "enable_available", "disable_disabled", "update_disabled_deposit", "binding_nonowner",
                                 "bind_existing", "withdraw_nonowner", "setwithdraw_module"],
                       gen_cfg=SERVICE_GEN_CFG, assumptions=_ASSUME),
    "C08": ModuleCheck("service", "Service.tla", "ServiceTrace.tla", "ServiceTrace.cfg", SERVICE_CLAUSES_C08,
                       SERVICE_MC, SERVICE_GEN, SERVICE_RND, scenarios=SERVICE_SCN,
                       required=["respond_ok", "respond_wrong_provider", "respond_not_active", "expire",
                                 "oneshot_removed", "batch_repeat", "total_reached", "pause_ok", "start_ok", "kill_ok",
                                 "update_ok", "unauthorized", "callback_ok", "callback_err", "funds_pause", "skip", "norate_pause",
                                 # round 7 (scenarios/service_probe.ndjson, service_bundle.ndjson)
                                 "probe_gone_ctx", "probe_gone_req", "cmd_on_completed", "cmd_on_oneshot", "pause_inflight",
                                 "kill_inflight", "start_inflight", "id_lower", "id_badlen", "txfailed"],
                       gen_cfg=SERVICE_GEN_CFG, assumptions=_ASSUME),
}

TEXT = {
    "C07": dict(
        design="DESIGN.md 8 (C07), 3, 4.2",
        text="Service.tla transcribes definitions, bindings (deposit, pricing with time and volume discounts, "
             "enable/disable/refund), request contexts, the end-block scheduler (one atomic fold over the due "
             "queue entries in store-key order), responses, tax, slashing and withdrawals branch by branch. TLC "
             "checks the escrow equalities, the owner tally, charge/answer/expire/withdraw and frame clauses "
             "exhaustively on a bounded universe, generates behaviours that are executed on the real "
             "application through the real ABCI path together with seeded random histories, and validates "
             "every event of every real trace against the clauses (verdict) and against the specification's "
             "own step function (drift).",
        note="Trusted: TLC/SANY/CommunityModules Json, Go toolchain, cosmos-sdk bank, the harness projection. "
             "A single denom; discounts restricted to n/4 and tax/slash denominators dividing 10^18 so that the "
             "code's 18-decimal arithmetic is exact. Finding F4 (undiscounted charge) is recognised by the "
             "discriminator why.f4 (the _ModF4 clause variants hold)."),
    "C08": dict(
        design="DESIGN.md 8 (C08), 3",
        text="Same specification and traces as C07; clauses: exactly one outcome per request (ghost counters of "
             "answers and observed expiries), respond guards, one-shot contexts, the schedule of repeated "
             "contexts (ghosts batchAt / modified / interrupted), authority of pause/start/kill/update, module "
             "callbacks (recorded by a harness-owned callback module registered on the service keeper; module "
             "contexts are created and driven by keeper calls executed inside carrier transactions) and the "
             "insufficient-funds pause.",
        note="As C07. Finding F21 (batches beyond the repeated total after pause/start) is recognised by the "
             "discriminator why.f21 (known finding F23). Former finding F20 (new-batch entry left behind when no exchange "
             "rate exists) is fixed in /repo (6da0f9d); the specification follows the repaired code and "
             "scenarios/service_F20.ndjson stays as a regression scenario."),
}
