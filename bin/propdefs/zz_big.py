"""Big-number tier (DESIGN 4.3): the real code is called on values far outside
TLC's 32-bit range; what it returned is evaluated by Apalache/Z3 against the
same clause operators TLC checks on the small universes.  Attached as post
hooks to the module checks (loaded last)."""
import json, os, subprocess, time
import vlib
from vlib import log, Inconclusive, ROOT
import props

TOKEN_FIELDS = [("inp", "Int"), ("burn", "Int"), ("mint", "Int"), ("rn", "Int"), ("rd", "Int"),
                ("wIn", "Int"), ("wOut", "Int"), ("pan", "Bool")]
TOKEN_STEPOK = """  \\/ s.pan
  \\/ /\\ Swap_NoOverBurnW(s.inp, s.burn, s.mint)
     /\\ Swap_WorthW(s.burn, s.mint, s.rn, s.rd, s.wIn, s.wOut)
     /\\ Swap_ExactAtOneW(s.burn, s.mint, s.rn, s.rd, s.wIn, s.wOut)
     /\\ Swap_DustW(s.inp, s.burn, s.rn, s.rd, s.wIn, s.wOut)"""


_BOUNDS = [31, 32, 53, 63, 64, 65, 97, 129]


def _stratum(v):
    v = abs(int(v))
    for b in _BOUNDS:
        if v < 2 ** b:
            return f"<2^{b}"
    return ">=2^129"


def _count(d, k):
    d[k] = d.get(k, 0) + 1


def token_strata(rows):
    """rows per magnitude stratum: input amount, ratio numerator (over 10^18), and the
    mixed cells where input and multiplier each stay below 2^b while the product does not."""
    st = {}
    for r in rows:
        inp, rn = int(r["inp"]), int(r["rn"])
        mult = max(int(r["wIn"]), int(r["wOut"]))
        _count(st, "input " + _stratum(inp))
        _count(st, "ratio_num " + _stratum(rn))
        for b in (53, 63, 64, 128):
            X = 2 ** b
            if inp < X and mult < X and mult > 1 and inp * mult >= X:
                _count(st, f"input*10^dscale crosses 2^{b} (each below)")
            if inp < X and rn < X and inp * rn >= X:
                _count(st, f"input*ratio_num crosses 2^{b} (each below)")
        if rn == 10 ** 18 and inp >= 2 ** 53 and inp % 2 == 1:
            _count(st, "ratio 1, odd input >= 2^53")
    return st


def cap_strata(rows):
    """rows per magnitude stratum of the cap max*w (per issued token), of accepted mint /
    burn amounts, and the crossings circ+amt / tally+amt / max*w over 2^53, 2^63, 2^64
    with every operand below the boundary."""
    st = {}
    for r in rows:
        if r["op"] == "Issue" and r["ok"]:
            m, w = int(r["max2"]), int(r["w"])
            _count(st, "cap " + _stratum(m * w))
            if m < 2 ** 64 and 1 < w < 2 ** 64 and m * w >= 2 ** 64:
                _count(st, "max*w crosses 2^64 (each below)")
            if m >= 2 ** 63:
                _count(st, "max >= 2^63")
        if r["op"] in ("Mint", "Burn") and r["ok"]:
            _count(st, r["op"].lower() + " amount " + _stratum(r["amt"]))
            for b in (53, 63, 64):
                X = 2 ** b
                if r["op"] == "Mint" and int(r["circ"]) < X <= int(r["circ2"]) and int(r["amt"]) < X:
                    _count(st, f"mint circ+amt crosses 2^{b} (each below)")
                if r["op"] == "Burn" and int(r["burned"]) < X <= int(r["burned2"]) and int(r["amt"]) < X:
                    _count(st, f"burn tally+amt crosses 2^{b} (each below)")
        if r["op"] == "Mint" and not r["ok"] and r["isOwner"] and r["mintable"] and int(r["circ"]) + int(r["amt"]) == int(r["max"]) * int(r["w"]) + 1:
            _count(st, "mint cap+1 rejected, cap " + _stratum(int(r["max"]) * int(r["w"])))
    return st


def token_big(check, pid, tier, seed, work, rows_file=None):
    """C10: LossLessSwap on amounts up to 2^128, all scale pairs, arbitrary
    18-decimal ratios.  A recovered panic (pan) satisfies the clauses: on chain it
    is a rejected transaction that moves nothing."""
    vlib.build_harness("tokenbig")
    sub = os.path.join(work, "big")
    os.makedirs(sub, exist_ok=True)
    vlib.copy_specs(sub)
    n = {"quick": 40, "thorough": 1500}[tier]   # seeded rows on top of the ~120 stratified cells + corpus
    if rows_file is None:
        rows_file = os.path.join(sub, "rows.json")
        p = subprocess.run([vlib.harness_bin("tokenbig"), "rows", "-seed", str(seed), "-n", str(n), "-out", rows_file],
                           capture_output=True, text=True, timeout=600)
        if p.returncode != 0:
            raise Inconclusive("harness-tokenbig failed: " + p.stderr[-1000:])
    rows = json.load(open(rows_file))
    ok, failing, wall = vlib.apalache_steps(sub, "TokenBig", "SwapClauses", TOKEN_FIELDS, rows, TOKEN_STEPOK)
    panics = sum(1 for r in rows if r["pan"])
    cov = {"big_steps": len(rows), "big_steps_ok": ok, "big_steps_panicked": panics, "big_wall_s": round(wall, 1),
           "big_rule": "rows = real LossLessSwap calls. MAGNITUDE STRATA: input amount in each of <2^31, [2^31,2^32), [2^32,2^53), "
                       "[2^53,2^63), [2^63,2^64), [2^64,2^65), ~2^96, [2^127,2^129) x six ratio classes (1, simple, 18-digit "
                       "residues below / above 1, numerator in [2^63,2^64), numerator >= 2^64); mixed cells where input and "
                       "10^|dscale| (resp. the ratio numerator) each stay below 2^53 / 2^63 / 2^64 / 2^128 and the product lands "
                       "just below / above it, scale up and scale down; low bits non-zero; plus seeded rows (amounts to 2^128, "
                       "scales 0..18 x 0..18) and a fixed corpus; clauses of SwapClauses.tla evaluated by Apalache 0.58 / Z3",
           "big_strata": token_strata(rows),
           "big_samples": rows[:2]}
    log(f"[big] {len(rows)} big-number rows from the real code evaluated by Apalache: {ok} ok, {len(failing)} failing, "
        f"{panics} recovered panics ({wall:.0f}s)")
    viol = []
    if failing:
        os.makedirs(os.path.join(ROOT, "replays"), exist_ok=True)
        path = os.path.join(ROOT, "replays", f"{pid}-{tier}-seed{seed}{vlib.REPLAY_TAG}.bigrows.json")
        json.dump([rows[i] for i in failing], open(path, "w"), indent=1)
        r = rows[failing[0]]
        viol.append((path, f"big-number row violates the C10 swap clauses: LossLessSwap(input={r['inp']}, ratio={r['rn']}e-18, "
                           f"scales {r['sin']}->{r['sout']}) returned burn={r['burn']} mint={r['mint']}"))
    return viol, cov


def token_big_replay(check, pid, path, work, seed):
    """Re-run the real function on the recorded inputs and evaluate again."""
    vlib.build_harness("tokenbig")
    rows = json.load(open(path))
    # recompute through the harness: the inputs are in the rows themselves
    import tempfile
    sub = os.path.join(work, "bigreplay")
    os.makedirs(sub, exist_ok=True)
    vlib.copy_specs(sub)
    inp = os.path.join(sub, "in.json")
    json.dump(rows, open(inp, "w"))
    out = os.path.join(sub, "out.json")
    p = subprocess.run([vlib.harness_bin("tokenbig"), "rows", "-in", inp, "-out", out, "-n", "0"],
                       capture_output=True, text=True, timeout=300)
    if p.returncode != 0:
        raise Inconclusive("harness-tokenbig failed: " + p.stderr[-1000:])
    fresh = json.load(open(out))
    ok, failing, wall = vlib.apalache_steps(sub, "TokenBig", "SwapClauses", TOKEN_FIELDS, fresh, TOKEN_STEPOK)
    if failing:
        r = fresh[failing[0]]
        log(f"replay: LossLessSwap(input={r['inp']}, ratio={r['rn']}e-18, scales {r['sin']}->{r['sout']}) = "
            f"burn {r['burn']} mint {r['mint']} violates the swap clauses")
        print(f"VIOLATION property={pid} replay={path}", flush=True)
        return 1
    log("replay: all rows satisfy the swap clauses")
    return 0


# ---------------------------------------------------------------------------
# Coinswap big-number tier (C01).  The stratified successor of this section (pool rows and C02 settlement rows per
# magnitude stratum) referred to a harness and a clause module that were never committed (they were lost when the
# session that wrote them was interrupted), so it evaluated ZERO rows without saying so.  Restored: the tier as
# committed in 2c75677 — harness-coinswapbig drives the real chain with reserves, shares and trades of all magnitudes
# and Apalache evaluates the share-value and leg clauses of CoinswapClauses.tla on every row.  An empty row set is
# inconclusive, never a pass.
CS_FIELDS = [("kind", "Str"), ("S", "Int"), ("T", "Int"), ("L", "Int"), ("S2", "Int"), ("T2", "Int"), ("L2", "Int"),
             ("rin", "Int"), ("rout", "Int"), ("paid", "Int"), ("recv", "Int"), ("fn", "Int"), ("fd", "Int"),
             ("isBuy", "Bool")]
CS_STEPOK = """  /\\ (s.kind = "share" => ShareValueW(s.S, s.T, s.L, s.S2, s.T2, s.L2))
  /\\ (s.kind = "leg" =>
        /\\ s.paid >= 0 /\\ s.recv >= 0 /\\ s.recv < s.rout
        /\\ LegRuleW(s.rin, s.rout, s.paid, s.recv, s.fn, s.fd)
        /\\ (s.isBuy => LegOutTightW(s.rin, s.rout, s.paid, s.recv, s.fn, s.fd))
        /\\ (~s.isBuy => LegInMaxW(s.rin, s.rout, s.paid, s.recv, s.fn, s.fd)))"""


def coinswap_big(check, pid, tier, seed, work, rows_file=None):
    """C01: the real coinswap module driven through the ABCI path with reserves,
    shares and trades from 1 to ~2^120; per message the pool's (S, T, L) before and
    after, per swap the leg as seen from the pool."""
    vlib.build_harness("coinswapbig")
    sub = os.path.join(work, "big")
    os.makedirs(sub, exist_ok=True)
    vlib.copy_specs(sub)
    n, ln = {"quick": (8, 30), "thorough": (60, 40)}[tier]
    if rows_file is None:
        rows_file = os.path.join(sub, "csrows.json")
        p = subprocess.run([vlib.harness_bin("coinswapbig"), "rows", "-seed", str(seed), "-n", str(n), "-len", str(ln),
                            "-out", rows_file], capture_output=True, text=True, timeout=1200)
        if p.returncode != 0:
            raise Inconclusive("harness-coinswapbig failed: " + p.stderr[-1000:])
    rows = json.load(open(rows_file))
    if len(rows) < 20:
        raise Inconclusive(f"coinswap big-number tier: only {len(rows)} rows were produced")
    ok, failing, wall = vlib.apalache_steps(sub, "CoinswapBig", "CoinswapClauses", CS_FIELDS, rows, CS_STEPOK)
    legs = sum(1 for r in rows if r["kind"] == "leg")
    cov = {"big_steps": len(rows), "big_steps_ok": ok, "big_legs": legs, "big_wall_s": round(wall, 1),
           "big_rule": "rows = successful coinswap messages executed on the real chain with reserves/shares/trades up to "
                       "~2^120 and 18-decimal fees; share-value row per message, leg row per swap; clauses of "
                       "CoinswapClauses.tla evaluated by Apalache 0.58 / Z3",
           "big_samples": rows[:2]}
    log(f"[big] {len(rows)} big-number rows ({legs} swap legs) from the real chain evaluated by Apalache: {ok} ok, "
        f"{len(failing)} failing ({wall:.0f}s)")
    viol = []
    if failing:
        os.makedirs(os.path.join(ROOT, "replays"), exist_ok=True)
        path = os.path.join(ROOT, "replays", f"{pid}-{tier}-seed{seed}{vlib.REPLAY_TAG}.bigrows.json")
        json.dump({"seed": seed, "n": n, "len": ln, "failing": [rows[i] for i in failing]}, open(path, "w"), indent=1)
        r = rows[failing[0]]
        viol.append((path, f"big-number row violates the C01 clauses: {r['op']} ({r['kind']}) history {r['hist']} step {r['step']}: "
                           f"S,T,L {r['S']},{r['T']},{r['L']} -> {r['S2']},{r['T2']},{r['L2']}; leg rin={r['rin']} rout={r['rout']} "
                           f"paid={r['paid']} recv={r['recv']} fee={r['fn']}/1e18"))
    return viol, cov


def coinswap_big_replay(check, pid, path, work, seed):
    """Re-run the recorded driver run (same seed and sizes) on the real chain and evaluate again."""
    meta = json.load(open(path))
    vlib.build_harness("coinswapbig")
    sub = os.path.join(work, "bigreplay")
    os.makedirs(sub, exist_ok=True)
    vlib.copy_specs(sub)
    rows_file = os.path.join(sub, "csrows.json")
    p = subprocess.run([vlib.harness_bin("coinswapbig"), "rows", "-seed", str(meta["seed"]), "-n", str(meta["n"]),
                        "-len", str(meta["len"]), "-out", rows_file], capture_output=True, text=True, timeout=1200)
    if p.returncode != 0:
        raise Inconclusive("harness-coinswapbig failed: " + p.stderr[-1000:])
    rows = json.load(open(rows_file))
    ok, failing, wall = vlib.apalache_steps(sub, "CoinswapBig", "CoinswapClauses", CS_FIELDS, rows, CS_STEPOK)
    if failing:
        r = rows[failing[0]]
        log(f"replay: {r['op']} history {r['hist']} step {r['step']} violates the C01 clauses")
        print(f"VIOLATION property={pid} replay={path}", flush=True)
        return 1
    log("replay: all rows satisfy the C01 clauses")
    return 0


def coinswap_lemmas(check, pid, tier, seed, work):
    """DESIGN 4.4: unbounded lemmas — for ALL natural reserves, amounts and fees the
    transcribed price functions satisfy the C01 leg clauses (Apalache, length 0).
    A timeout is 'not proved' and changes nothing; a refuted lemma means the
    specification's own formulas break the clause and is reported as inconclusive."""
    sub = os.path.join(work, "lemmas")
    os.makedirs(sub, exist_ok=True)
    vlib.copy_specs(sub)
    proved, notproved = [], []
    for mod, inv in (("CoinswapLemmas.tla", "Lemma_InputPrice"), ("CoinswapLemmas.tla", "Lemma_OutputPrice"),
                     ("CoinswapLemmas2.tla", "Lemma_AddLiquidity"), ("CoinswapLemmas2.tla", "Lemma_RemoveLiquidity"),
                     ("CoinswapLemmas2.tla", "Lemma_AddUnilateral"), ("CoinswapLemmas2.tla", "Lemma_RemoveUnilateral")):
        try:
            p = subprocess.run(["apalache-mc", "check", "--length=0", "--init=Init", "--next=Next", f"--inv={inv}",
                                f"--out-dir={os.path.join(sub, '_apalache-out')}", mod], cwd=sub,
                               capture_output=True, text=True, timeout=240)
            out = p.stdout + p.stderr
        except subprocess.TimeoutExpired:
            out = ""
        if "The outcome is: NoError" in out:
            proved.append(inv)
        elif "The outcome is: Error" in out:
            raise Inconclusive(f"unbounded lemma {inv} is refuted: the transcribed price formula violates a C01 leg clause")
        else:
            notproved.append(inv)
    log(f"[lemmas] proved for all naturals (Apalache/Z3): {proved}; not proved: {notproved}")
    return [], {"lemmas_proved": proved, "lemmas_not_proved": notproved}


if "C01" in props.PROPS:
    props.PROPS["C01"].post.append(coinswap_lemmas)
    props.PROPS["C01"].post.append(coinswap_big)
    props.PROPS["C01"].big_replay = coinswap_big_replay

def token_lemmas(check, pid, tier, seed, work):
    """Unbounded lemma for the (repaired) LossLessSwap in exact rational arithmetic."""
    sub = os.path.join(work, "lemmas")
    os.makedirs(sub, exist_ok=True)
    vlib.copy_specs(sub)
    proved, notproved = [], []
    try:
        p = subprocess.run(["apalache-mc", "check", "--length=0", "--init=Init", "--next=Next", "--inv=Lemma_LossLess",
                            f"--out-dir={os.path.join(sub, '_apalache-out')}", "TokenLemmas.tla"], cwd=sub,
                           capture_output=True, text=True, timeout=240)
        out = p.stdout + p.stderr
    except subprocess.TimeoutExpired:
        out = ""
    if "The outcome is: NoError" in out:
        proved.append("Lemma_LossLess")
    elif "The outcome is: Error" in out:
        raise Inconclusive("unbounded lemma Lemma_LossLess is refuted")
    else:
        notproved.append("Lemma_LossLess")
    log(f"[lemmas] proved for all naturals (Apalache/Z3): {proved}; not proved: {notproved}")
    return [], {"lemmas_proved": proved, "lemmas_not_proved": notproved}


if "C10" in props.PROPS:
    props.PROPS["C10"].post.append(token_lemmas)
    props.PROPS["C10"].post.append(token_big)
    props.PROPS["C10"].big_replay = token_big_replay


# ---------------------------------------------------------------------------
# C09 big-number tier: the token module on the real chain with maxima up to
# MaxUint64 main units and scales up to 18 (harness/cmd/tokencap); the
# CapClauses.tla operators Token.tla's C09_Cap / C09_Burned are made of.
CAP_FIELDS = [("op", "Str"), ("ok", "Bool"), ("isOwner", "Bool"), ("mintable", "Bool"), ("max", "Int"), ("max2", "Int"),
              ("newMax", "Int"), ("w", "Int"), ("circ", "Int"), ("circ2", "Int"), ("amt", "Int"),
              ("burned", "Int"), ("burned2", "Int"), ("bal", "Int"), ("bal2", "Int")]
CAP_STEPOK = """  /\\ CapKeptW(s.circ, s.max, s.circ2, s.max2, s.w)
  /\\ (s.op = "Edit" => EditMaxW(s.ok, s.newMax, s.max2, s.w, s.circ2))
  /\\ ((s.op = "Burn" /\\ s.ok) => BurnExactW(s.amt, s.burned, s.burned2, s.circ, s.circ2, s.bal, s.bal2))
  /\\ TallyW(s.burned, s.burned2, s.op = "Burn" /\\ s.ok)
  /\\ ((s.op \\in {"Mint", "Edit", "Transfer"} /\\ s.ok) => s.isOwner)
  /\\ ((s.op = "Mint" /\\ s.ok) => s.mintable)
  /\\ ((s.circ2 > s.circ) => (s.ok /\\ s.op \\in {"Mint", "Issue"}))
  /\\ ((s.max2 # s.max) => (s.ok /\\ s.op = "Edit"))
  /\\ ((~s.ok) => (s.circ2 = s.circ /\\ s.burned2 = s.burned /\\ s.bal2 = s.bal))"""
CAP_SIZES = {"quick": (7, 4), "thorough": (22, 30)}   # 2 tokens per history; the first 14 specs hold every stratum


def _cap_rows(seed, n, ln, out):
    p = subprocess.run([vlib.harness_bin("tokencap"), "rows", "-seed", str(seed), "-n", str(n), "-len", str(ln), "-out", out],
                       capture_output=True, text=True, timeout=1200)
    if p.returncode != 0:
        raise Inconclusive("harness-tokencap failed: " + p.stderr[-1000:])
    return json.load(open(out))


def _cap_text(r):
    return (f"{r['op']} on {r['sym']} by {r['who']} (history {r['hist']} step {r['step']}, ok={r['ok']}): max {r['max']} -> {r['max2']} "
            f"main units of {r['w']} min units, circulating {r['circ']} -> {r['circ2']}, amount {r['amt']}, "
            f"burned {r['burned']} -> {r['burned2']}")


def token_cap_big(check, pid, tier, seed, work):
    """C09: issue / mint / burn / edit / transfer-owner on the real chain with
    maximum supplies up to MaxUint64 main units, scales 0..18, mints landing
    exactly on the cap and one beyond, fractional burns, the maximum lowered to
    what circulates and one below."""
    vlib.build_harness("tokencap")
    sub = os.path.join(work, "capbig")
    os.makedirs(sub, exist_ok=True)
    vlib.copy_specs(sub)
    n, ln = CAP_SIZES[tier]
    rows = _cap_rows(seed, n, ln, os.path.join(sub, "caprows.json"))
    ok, failing, wall = vlib.apalache_steps(sub, "TokenCapBig", "CapClauses", CAP_FIELDS, rows, CAP_STEPOK)
    atcap = sum(1 for r in rows if r["op"] == "Mint" and r["ok"] and int(r["circ2"]) == int(r["max2"]) * int(r["w"]))
    cov = {"big_steps": len(rows), "big_steps_ok": ok, "big_mints_to_cap": atcap, "big_wall_s": round(wall, 1),
           "big_rule": "rows = token messages (issue, mint, burn, edit, transfer-owner; accepted and rejected) executed on the "
                       "real chain with maxima up to MaxUint64 main units, scales 0/1/6/18, amounts up to MaxUint64*10^18; one "
                       "row per message with maximum, circulating amount, burned tally and sender balance before/after; "
                       "clauses of CapClauses.tla (the operators of C09_Cap / C09_Burned) and the authority / rejection "
                       "conditions evaluated by Apalache 0.58 / Z3. MAGNITUDE STRATA: the cap max*w of the issued tokens is "
                       "placed in each of <2^31, [2^31,2^32), [2^32,2^53), [2^53,2^63), [2^63,2^64), [2^64,2^65), ~2^84..2^96 "
                       "(max*w < 2^124 for a uint64 maximum) incl. max >= 2^63, max and w each below 2^64 with max*w above, caps "
                       "just below / above 2^53 and 2^64; per token: half the room twice (circ+amt crossing the boundary, each "
                       "below), room+1, exactly to the cap, fractional burns, nearly everything burned in two steps (tally+amt "
                       "crossing), minted again; low bits non-zero",
           "big_strata": cap_strata(rows),
           "big_samples": rows[:2]}
    log(f"[big] {len(rows)} big-number rows ({atcap} mints exactly to the cap) from the real chain evaluated by Apalache: "
        f"{ok} ok, {len(failing)} failing ({wall:.0f}s)")
    viol = []
    if failing:
        os.makedirs(os.path.join(ROOT, "replays"), exist_ok=True)
        path = os.path.join(ROOT, "replays", f"{pid}-{tier}-seed{seed}{vlib.REPLAY_TAG}.bigrows.json")
        json.dump({"seed": seed, "n": n, "len": ln, "failing": [rows[i] for i in failing]}, open(path, "w"), indent=1)
        viol.append((path, "big-number row violates the C09 clauses: " + _cap_text(rows[failing[0]])))
    return viol, cov


def token_cap_big_replay(check, pid, path, work, seed):
    """Re-run the recorded driver run (same seed and sizes) on the real chain and evaluate again."""
    meta = json.load(open(path))
    vlib.build_harness("tokencap")
    sub = os.path.join(work, "capreplay")
    os.makedirs(sub, exist_ok=True)
    vlib.copy_specs(sub)
    rows = _cap_rows(meta["seed"], meta["n"], meta["len"], os.path.join(sub, "caprows.json"))
    ok, failing, wall = vlib.apalache_steps(sub, "TokenCapBig", "CapClauses", CAP_FIELDS, rows, CAP_STEPOK)
    if failing:
        log("replay: " + _cap_text(rows[failing[0]]) + " violates the C09 clauses")
        print(f"VIOLATION property={pid} replay={path}", flush=True)
        return 1
    log("replay: all rows satisfy the C09 clauses")
    return 0


if "C09" in props.PROPS:
    props.PROPS["C09"].post.append(token_cap_big)
    props.PROPS["C09"].big_replay = token_cap_big_replay

# ---------------------------------------------------------------------------
# C17 magnitude tier: the oracle module on the real chain (harness-oracle rows)
# with feeds of every aggregate, 1..4 providers, every threshold, and answers
# from every magnitude stratum; the OracleClauses.tla operators Oracle.tla's
# C17_Aggregate is made of.  Integers in units of 10^-8.
ORA_FIELDS = [("kind", "Str"), ("n", "Int"), ("v1", "Int"), ("v2", "Int"), ("v3", "Int"), ("v4", "Int"),
              ("stored", "Int"), ("fmt", "Bool")]
# tolerance of the average (twice it): half a unit per answer for the 8-decimal rounding, doubled, plus
# 4 * 2^-50 of the sum of the absolute values for float64 summation and division (OracleClauses.tla)
ORA_STEPOK = """  /\\ s.fmt /\\ s.n >= 1 /\\ s.n <= 4
  /\\ (s.kind = "avg" =>
        AvgW(SumW(s.v1, s.v2, s.v3, s.v4, s.n), s.n, s.stored,
             TimesW(2, s.n) + (8 * AbsSumW(s.v1, s.v2, s.v3, s.v4, s.n)) \\div 1125899906842624))
  /\\ (s.kind = "max" => MaxW(MaxOfW(s.v1, s.v2, s.v3, s.v4, s.n), s.stored, 0))
  /\\ (s.kind = "min" => MinW(MinOfW(s.v1, s.v2, s.v3, s.v4, s.n), s.stored, 0))"""
ORA_SIZES = {"quick": (2, 14), "thorough": (8, 30)}
ORA_RULE = ("rows = feed values stored by the real oracle module (ABCI path; feeds avg/max/min x 1..4 providers x every "
            "threshold; answers submitted as real MsgRespondService transactions, some providers silent or failing), one row "
            "per stored value: aggregate, the valid answers and the stored decimal as integers in units of 10^-8. Answers are "
            "exactly representable float64 numbers with <= 8 fractional digits, drawn per batch from ONE stratum so that all "
            "operands share it: <2^31, [2^31,2^32), [2^32,2^53) (whole and fractional), [2^53,2^63), [2^63,2^64), [2^64,2^65), "
            "~2^96, [2^127,2^129) (whole, full 53-bit mantissas), sets whose members are < 2^k while the sum is >= 2^k for "
            "k = 53, 63, 64, 128, and k*10^18 (wei); signs all +, all -, mixed, and cancelling. Clauses of OracleClauses.tla "
            "evaluated by Apalache / Z3: avg |stored*n - sum| <= n + 4*2^-50*sum|v| (8-decimal rounding + float64 "
            "summation/division error), max/min exact.")


def _ora_rows(seed, n, ln, out):
    p = subprocess.run([vlib.harness_bin("oracle"), "rows", "-seed", str(seed), "-n", str(n), "-len", str(ln), "-out", out],
                       capture_output=True, text=True, timeout=1200)
    if p.returncode != 0:
        raise Inconclusive("harness-oracle rows failed: " + (p.stdout + p.stderr)[-1500:])
    return json.load(open(out))


def _ora_text(r):
    return (f"feed {r['feed']} ({r['kind']}, {r['asked']} providers, threshold {r['thr']}; history {r['hist']} step {r['step']}, "
            f"stratum {r['stratum']}): valid answers {r['answers']} stored as {r['raw']}")


def _ora_eval(sub, rows, chunks=4):
    """apalache_steps on `chunks` slices of the rows in parallel (own directories)."""
    from concurrent.futures import ThreadPoolExecutor
    t0 = time.time()
    size = max(1, (len(rows) + chunks - 1) // chunks)
    parts = [(k, rows[k:k + size]) for k in range(0, len(rows), size)]

    def one(part):
        k, rs = part
        d = os.path.join(sub, f"chunk{k}")
        os.makedirs(d, exist_ok=True)
        vlib.copy_specs(d)
        ok, failing, _ = vlib.apalache_steps(d, "OracleBig", "OracleClauses", ORA_FIELDS, rs, ORA_STEPOK)
        return [k + i for i in failing]

    failing = []
    with ThreadPoolExecutor(max_workers=chunks) as ex:
        for f in ex.map(one, parts):
            failing += f
    failing.sort()
    return len(rows) - len(failing), failing, time.time() - t0


def oracle_big(check, pid, tier, seed, work):
    """C17_Aggregate at every magnitude: see ORA_RULE."""
    vlib.build_harness("oracle")
    sub = os.path.join(work, "orabig")
    os.makedirs(sub, exist_ok=True)
    vlib.copy_specs(sub)
    n, ln = ORA_SIZES[tier]
    rows = _ora_rows(seed, n, ln, os.path.join(sub, "orarows.json"))
    ok, failing, wall = _ora_eval(sub, rows)
    strata, kinds = {}, {}
    for r in rows:
        k = r["stratum"].split(" ")[0]
        strata[k] = strata.get(k, 0) + 1
        kinds[r["kind"]] = kinds.get(r["kind"], 0) + 1
    cov = {"big_steps": len(rows), "big_steps_ok": ok, "big_wall_s": round(wall, 1), "big_rule": ORA_RULE,
           "big_strata": strata, "big_kinds": kinds,
           "big_signs": {k: sum(1 for r in rows if r["stratum"].split(" ")[-1] == k) for k in ("+", "-", "+-", "cancel")},
           "big_samples": rows[:2]}
    log(f"[big] {len(rows)} big-number rows (stored feed values of the real chain, {len(strata)} magnitude strata) evaluated "
        f"by Apalache: {ok} ok, {len(failing)} failing ({wall:.0f}s)")
    viol = []
    if failing:
        os.makedirs(os.path.join(ROOT, "replays"), exist_ok=True)
        path = os.path.join(ROOT, "replays", f"{pid}-{tier}-seed{seed}{vlib.REPLAY_TAG}.bigrows.json")
        json.dump({"seed": seed, "n": n, "len": ln, "failing": [rows[i] for i in failing]}, open(path, "w"), indent=1)
        viol.append((path, "big-number row violates C17_Aggregate (OracleClauses): " + _ora_text(rows[failing[0]])))
    return viol, cov


def oracle_big_replay(check, pid, path, work, seed):
    """Re-run the recorded driver run (same seed and sizes) on the real chain and evaluate again."""
    meta = json.load(open(path))
    vlib.build_harness("oracle")
    sub = os.path.join(work, "orareplay")
    os.makedirs(sub, exist_ok=True)
    vlib.copy_specs(sub)
    rows = _ora_rows(meta["seed"], meta["n"], meta["len"], os.path.join(sub, "orarows.json"))
    ok, failing, wall = _ora_eval(sub, rows)
    if failing:
        log("replay: " + _ora_text(rows[failing[0]]) + " violates C17_Aggregate")
        print(f"VIOLATION property={pid} replay={path}", flush=True)
        return 1
    log("replay: all rows satisfy C17_Aggregate")
    return 0


if "C17" in props.PROPS:
    props.PROPS["C17"].post.append(oracle_big)
    props.PROPS["C17"].big_replay = oracle_big_replay


# ---------------------------------------------------------------------------
# C07 magnitude tier: the service module on the real chain with prices, deposits,
# fee caps and balances in every magnitude stratum up to ~2^129 and tax / slash
# fractions across their valid range (harness/cmd/servicebig); the
# ServiceClauses.tla operators Service.tla's C07 clauses are made of.
_SVC_ESC = [("depBal", "Int"), ("depSum", "Int"), ("reqBal", "Int"), ("liab", "Int"), ("f4", "Int")]
_SVC_ESC_OK = """  /\\ EscrowW(s.depBal, s.depSum)
  /\\ EscrowW(s.reqBal, s.liab + s.f4)
"""
# one generated module per group of row kinds (a record of all 30 fields per row makes Apalache ~10x slower)
SVC_GROUPS = [
    (("answer",), ["fee", "tn", "td", "tax", "dReq", "dEarn", "dOwn"],
     """  /\\ TaxW(s.fee, s.tn, s.td, s.tax, s.dEarn) /\\ s.dOwn = s.dEarn
  /\\ AnswerMoveW(s.tax, s.tax, s.dReq)"""),
    (("slash", "block"), ["dep", "dep2", "sn", "sd", "k", "slashed", "dDepEsc", "dFeep"],
     """  /\\ ((s.kind = "slash" /\\ s.k = 1) => SlashW(s.dep, s.sn, s.sd, s.dep2))
  /\\ (s.kind = "block" => SlashMoveW(s.slashed, s.dDepEsc, s.dFeep))"""),
    (("settle",), ["delta", "refunds", "charges", "over"],
     """  /\\ ChargeF4W(s.delta, s.refunds, s.charges, s.over)"""),
    (("withdraw", "deposit", "refunddep"), ["paid", "own", "own2", "dReq", "dTo", "amt", "dep", "dep2", "dOwner", "dDepEsc"],
     """  /\\ (s.kind = "withdraw" => (WithdrawW(s.paid, s.own, s.own2, s.dReq) /\\ s.dTo = s.paid))
  /\\ (s.kind = "deposit" => DepositMoveW(s.amt, s.dep, s.dep2, s.dOwner, s.dDepEsc))
  /\\ (s.kind = "refunddep" => RefundDepositW(s.dep, s.dep2, s.dOwner, s.dDepEsc))"""),
]
SVC_SIZES = {"quick": (11, 2), "thorough": (66, 4)}   # histories (a multiple of the 11 strata), rounds per history


def _svc_rows(seed, n, ln, out):
    p = subprocess.run([vlib.harness_bin("servicebig"), "rows", "-seed", str(seed), "-n", str(n), "-len", str(ln), "-out", out],
                       capture_output=True, text=True, timeout=1200)
    if p.returncode != 0:
        raise Inconclusive("harness-servicebig failed: " + p.stderr[-1000:])
    return json.load(open(out))


def _svc_text(r):
    if r["kind"] == "answer":
        return (f"Respond (history {r['hist']} step {r['step']}, stratum {r['stratum']}): fee {r['fee']}, tax rate {r['tn']}e-18, "
                f"fee pool +{r['tax']}, provider tally +{r['dEarn']}, request escrow {r['dReq']}")
    if r["kind"] == "slash":
        return (f"EndBlock expiry (history {r['hist']} step {r['step']}, stratum {r['stratum']}): binding deposit {r['dep']} -> {r['dep2']} "
                f"after {r['k']} expired request(s), slash fraction {r['sn']}e-18 (floor(deposit*fraction) = "
                f"{int(r['dep']) * int(r['sn']) // int(r['sd'])}, moved {int(r['dep']) - int(r['dep2'])})")
    if r["kind"] == "block":
        return (f"EndBlock expiry (history {r['hist']} step {r['step']}, stratum {r['stratum']}): deposit {r['dep']} -> {r['dep2']}, "
                f"slash fraction {r['sn']}e-18, slashed {r['slashed']}, deposit escrow {r['dDepEsc']}, fee pool +{r['dFeep']}")
    return f"{r['op']} ({r['kind']}, history {r['hist']} step {r['step']}, stratum {r['stratum']}): " + \
        ", ".join(f"{k}={v}" for k, v in r.items() if v not in ("0", 0) and k not in ("kind", "op", "hist", "step", "stratum"))


def _svc_eval(sub, rows):
    """Every row is evaluated (escrow identities + the clauses of its kind); returns (ok, failing indexes, wall)."""
    failing, wall = [], 0.0
    for kinds, fields, stepok in SVC_GROUPS:
        idx = [i for i, r in enumerate(rows) if r["kind"] in kinds]
        if not idx:
            continue
        fl = [("kind", "Str")] + [(f, "Int") for f in fields] + _SVC_ESC
        _, bad, w = vlib.apalache_steps(sub, "ServiceBig_" + kinds[0], "ServiceClauses", fl, [rows[i] for i in idx],
                                        _SVC_ESC_OK + stepok)
        failing += [idx[b] for b in bad]
        wall += w
    failing.sort()
    return len(rows) - len(failing), failing, wall


def service_big(check, pid, tier, seed, work):
    """C07: bind / top up / call / end-block batch / respond / expire (slash + refund) / withdraw / refund-deposit on the
    real chain; all operands of a history drawn from one magnitude stratum."""
    vlib.build_harness("servicebig")
    sub = os.path.join(work, "svcbig")
    os.makedirs(sub, exist_ok=True)
    vlib.copy_specs(sub)
    n, ln = SVC_SIZES[tier]
    rows = _svc_rows(seed, n, ln, os.path.join(sub, "svcrows.json"))
    ok, failing, wall = _svc_eval(sub, rows)
    strata, kinds = {}, {}
    for r in rows:
        strata[r["stratum"]] = strata.get(r["stratum"], 0) + 1
        kinds[r["kind"]] = kinds.get(r["kind"], 0) + 1
    cov = {"big_steps": len(rows), "big_steps_ok": ok, "big_wall_s": round(wall, 1), "big_strata": strata, "big_kinds": kinds,
           "big_rule": "rows = service messages and end-blocks executed on the real chain (bind, update/enable with deposit, "
                       "call, end-block batch, respond, expiry with slash and refund, withdraw, disable + refund deposit); in "
                       "history i ALL operands (prices, deposits, top-ups) are drawn from stratum (i + seed) mod 11 of "
                       "<2^31, [2^31,2^32), [2^32,2^53), [2^53,2^63), [2^63,2^64), [2^64,2^65), ~2^96, [2^127,2^129) and the "
                       "mixed strata [2^62,2^63), [2^63,2^64), [2^127,2^128) whose sums (two fees charged together, deposit + "
                       "top-up, accumulated tallies and escrows) and products with the 18-decimal rates cross the word size; "
                       "low 16 bits never all zero; tax rates 0, 1e-18, 0.05, 0.1, 1/3, 0.5, 0.999999999999999999 and slash "
                       "fractions 0, 1e-18, 0.001, 1/3, 0.5, 0.999999999999999999, 1 cycle per round; provider p2 always "
                       "carries a time discount (F4 excused exactly: ChargeF4W / escrow + recorded overcharge). One row per "
                       "answered request (tax split), per slashed binding, per end-block (slash movement), per consumer "
                       "settlement, per withdrawal, per deposit move, each with the two escrow identities; clauses of "
                       "ServiceClauses.tla (the operators of Service.tla's C07 clauses) evaluated by Apalache 0.58 / Z3",
           "big_samples": rows[:2]}
    log(f"[big] {len(rows)} big-number rows from the real chain evaluated by Apalache: {ok} ok, {len(failing)} failing "
        f"({wall:.0f}s); per stratum {strata}")
    viol = []
    if failing:
        os.makedirs(os.path.join(ROOT, "replays"), exist_ok=True)
        path = os.path.join(ROOT, "replays", f"{pid}-{tier}-seed{seed}{vlib.REPLAY_TAG}.bigrows.json")
        json.dump({"seed": seed, "n": n, "len": ln, "failing": [rows[i] for i in failing]}, open(path, "w"), indent=1)
        r = rows[failing[0]]
        clause = {"answer": "C07_Answer", "slash": "C07_Expire", "block": "C07_Expire", "settle": "C07_Charge",
                  "withdraw": "C07_Withdraw", "deposit": "C07_Frame", "refunddep": "C07_Frame"}.get(r["kind"], "C07")
        viol.append((path, f"big-number row violates {clause} (or an escrow identity C07_DepositEscrow / C07_RequestEscrow): " + _svc_text(r)))
    return viol, cov


def service_big_replay(check, pid, path, work, seed):
    """Re-run the recorded driver run (same seed and sizes) on the real chain and evaluate again."""
    meta = json.load(open(path))
    vlib.build_harness("servicebig")
    sub = os.path.join(work, "svcreplay")
    os.makedirs(sub, exist_ok=True)
    vlib.copy_specs(sub)
    rows = _svc_rows(meta["seed"], meta["n"], meta["len"], os.path.join(sub, "svcrows.json"))
    ok, failing, wall = _svc_eval(sub, rows)
    if failing:
        log("replay: " + _svc_text(rows[failing[0]]) + " violates the C07 clauses")
        print(f"VIOLATION property={pid} replay={path}", flush=True)
        return 1
    log("replay: all rows satisfy the C07 clauses")
    return 0


if "C07" in props.PROPS:
    props.PROPS["C07"].post.append(service_big)
    props.PROPS["C07"].big_replay = service_big_replay

PROPS = {}
TEXT = {}
