"""Big-number tier (DESIGN 4.3): the real code is called on values far outside
TLC's 32-bit range; what it returned is evaluated by Apalache/Z3 against the
same clause operators TLC checks on the small universes.  Attached as post
hooks to the module checks (loaded last)."""
import json, os, subprocess, time
import vlib
from vlib import log, Inconclusive, ROOT
import props

TOKEN_FIELDS = [("inp", "Int"), ("burn", "Int"), ("mint", "Int"), ("rn", "Int"), ("rd", "Int"),
                ("wIn", "Int"), ("wOut", "Int"), ("pan", "Bool")]
TOKEN_STEPOK = """  \\/ s.pan
  \\/ /\\ Swap_NoOverBurnW(s.inp, s.burn, s.mint)
     /\\ Swap_WorthW(s.burn, s.mint, s.rn, s.rd, s.wIn, s.wOut)
     /\\ Swap_ExactAtOneW(s.burn, s.mint, s.rn, s.rd, s.wIn, s.wOut)
     /\\ Swap_DustW(s.inp, s.burn, s.rn, s.rd, s.wIn, s.wOut)"""


def token_big(check, pid, tier, seed, work, rows_file=None):
    """C10: LossLessSwap on amounts up to 2^128, all scale pairs, arbitrary
    18-decimal ratios.  A recovered panic (pan) satisfies the clauses: on chain it
    is a rejected transaction that moves nothing."""
    vlib.build_harness("tokenbig")
    sub = os.path.join(work, "big")
    os.makedirs(sub, exist_ok=True)
    vlib.copy_specs(sub)
    n = {"quick": 150, "thorough": 1500}[tier]
    if rows_file is None:
        rows_file = os.path.join(sub, "rows.json")
        p = subprocess.run([vlib.harness_bin("tokenbig"), "rows", "-seed", str(seed), "-n", str(n), "-out", rows_file],
                           capture_output=True, text=True, timeout=600)
        if p.returncode != 0:
            raise Inconclusive("harness-tokenbig failed: " + p.stderr[-1000:])
    rows = json.load(open(rows_file))
    ok, failing, wall = vlib.apalache_steps(sub, "TokenBig", "SwapClauses", TOKEN_FIELDS, rows, TOKEN_STEPOK)
    panics = sum(1 for r in rows if r["pan"])
    cov = {"big_steps": len(rows), "big_steps_ok": ok, "big_steps_panicked": panics, "big_wall_s": round(wall, 1),
           "big_rule": "rows = real LossLessSwap calls with amounts to 2^128, scales 0..18 x 0..18, random and "
                       "boundary 18-decimal ratios; clauses of SwapClauses.tla evaluated by Apalache 0.58 / Z3",
           "big_samples": rows[:2]}
    log(f"[big] {len(rows)} big-number rows from the real code evaluated by Apalache: {ok} ok, {len(failing)} failing, "
        f"{panics} recovered panics ({wall:.0f}s)")
    viol = []
    if failing:
        os.makedirs(os.path.join(ROOT, "replays"), exist_ok=True)
        path = os.path.join(ROOT, "replays", f"{pid}-{tier}-seed{seed}.bigrows.json")
        json.dump([rows[i] for i in failing], open(path, "w"), indent=1)
        r = rows[failing[0]]
        viol.append((path, f"big-number row violates the C10 swap clauses: LossLessSwap(input={r['inp']}, ratio={r['rn']}e-18, "
                           f"scales {r['sin']}->{r['sout']}) returned burn={r['burn']} mint={r['mint']}"))
    return viol, cov


def token_big_replay(check, pid, path, work, seed):
    """Re-run the real function on the recorded inputs and evaluate again."""
    vlib.build_harness("tokenbig")
    rows = json.load(open(path))
    # recompute through the harness: the inputs are in the rows themselves
    import tempfile
    sub = os.path.join(work, "bigreplay")
    os.makedirs(sub, exist_ok=True)
    vlib.copy_specs(sub)
    inp = os.path.join(sub, "in.json")
    json.dump(rows, open(inp, "w"))
    out = os.path.join(sub, "out.json")
    p = subprocess.run([vlib.harness_bin("tokenbig"), "rows", "-in", inp, "-out", out, "-n", "0"],
                       capture_output=True, text=True, timeout=300)
    if p.returncode != 0:
        raise Inconclusive("harness-tokenbig failed: " + p.stderr[-1000:])
    fresh = json.load(open(out))
    ok, failing, wall = vlib.apalache_steps(sub, "TokenBig", "SwapClauses", TOKEN_FIELDS, fresh, TOKEN_STEPOK)
    if failing:
        r = fresh[failing[0]]
        log(f"replay: LossLessSwap(input={r['inp']}, ratio={r['rn']}e-18, scales {r['sin']}->{r['sout']}) = "
            f"burn {r['burn']} mint {r['mint']} violates the swap clauses")
        print(f"VIOLATION property={pid} replay={path}", flush=True)
        return 1
    log("replay: all rows satisfy the swap clauses")
    return 0


CS_FIELDS = [("kind", "Str"), ("S", "Int"), ("T", "Int"), ("L", "Int"), ("S2", "Int"), ("T2", "Int"), ("L2", "Int"),
             ("rin", "Int"), ("rout", "Int"), ("paid", "Int"), ("recv", "Int"), ("fn", "Int"), ("fd", "Int"),
             ("isBuy", "Bool")]
CS_STEPOK = """  /\\ (s.kind = "share" => ShareValueW(s.S, s.T, s.L, s.S2, s.T2, s.L2))
  /\\ (s.kind = "leg" =>
        /\\ s.paid >= 0 /\\ s.recv >= 0 /\\ s.recv < s.rout
        /\\ LegRuleW(s.rin, s.rout, s.paid, s.recv, s.fn, s.fd)
        /\\ (s.isBuy => LegOutTightW(s.rin, s.rout, s.paid, s.recv, s.fn, s.fd))
        /\\ (~s.isBuy => LegInMaxW(s.rin, s.rout, s.paid, s.recv, s.fn, s.fd)))"""


def coinswap_big(check, pid, tier, seed, work, rows_file=None):
    """C01: the real coinswap module driven through the ABCI path with reserves,
    shares and trades from 1 to ~2^120; per message the pool's (S, T, L) before and
    after, per swap the leg as seen from the pool."""
    vlib.build_harness("coinswapbig")
    sub = os.path.join(work, "big")
    os.makedirs(sub, exist_ok=True)
    vlib.copy_specs(sub)
    n, ln = {"quick": (8, 30), "thorough": (60, 40)}[tier]
    if rows_file is None:
        rows_file = os.path.join(sub, "csrows.json")
        p = subprocess.run([vlib.harness_bin("coinswapbig"), "rows", "-seed", str(seed), "-n", str(n), "-len", str(ln),
                            "-out", rows_file], capture_output=True, text=True, timeout=1200)
        if p.returncode != 0:
            raise Inconclusive("harness-coinswapbig failed: " + p.stderr[-1000:])
    rows = json.load(open(rows_file))
    ok, failing, wall = vlib.apalache_steps(sub, "CoinswapBig", "CoinswapClauses", CS_FIELDS, rows, CS_STEPOK)
    legs = sum(1 for r in rows if r["kind"] == "leg")
    cov = {"big_steps": len(rows), "big_steps_ok": ok, "big_legs": legs, "big_wall_s": round(wall, 1),
           "big_rule": "rows = successful coinswap messages executed on the real chain with reserves/shares/trades up to "
                       "~2^120 and 18-decimal fees; share-value row per message, leg row per swap; clauses of "
                       "CoinswapClauses.tla evaluated by Apalache 0.58 / Z3",
           "big_samples": rows[:2]}
    log(f"[big] {len(rows)} big-number rows ({legs} swap legs) from the real chain evaluated by Apalache: {ok} ok, "
        f"{len(failing)} failing ({wall:.0f}s)")
    viol = []
    if failing:
        os.makedirs(os.path.join(ROOT, "replays"), exist_ok=True)
        path = os.path.join(ROOT, "replays", f"{pid}-{tier}-seed{seed}.bigrows.json")
        json.dump({"seed": seed, "n": n, "len": ln, "failing": [rows[i] for i in failing]}, open(path, "w"), indent=1)
        r = rows[failing[0]]
        viol.append((path, f"big-number row violates the C01 clauses: {r['op']} ({r['kind']}) history {r['hist']} step {r['step']}: "
                           f"S,T,L {r['S']},{r['T']},{r['L']} -> {r['S2']},{r['T2']},{r['L2']}; leg rin={r['rin']} rout={r['rout']} "
                           f"paid={r['paid']} recv={r['recv']} fee={r['fn']}/1e18"))
    return viol, cov


def coinswap_big_replay(check, pid, path, work, seed):
    """Re-run the recorded driver run (same seed and sizes) on the real chain and evaluate again."""
    meta = json.load(open(path))
    vlib.build_harness("coinswapbig")
    sub = os.path.join(work, "bigreplay")
    os.makedirs(sub, exist_ok=True)
    vlib.copy_specs(sub)
    rows_file = os.path.join(sub, "csrows.json")
    p = subprocess.run([vlib.harness_bin("coinswapbig"), "rows", "-seed", str(meta["seed"]), "-n", str(meta["n"]),
                        "-len", str(meta["len"]), "-out", rows_file], capture_output=True, text=True, timeout=1200)
    if p.returncode != 0:
        raise Inconclusive("harness-coinswapbig failed: " + p.stderr[-1000:])
    rows = json.load(open(rows_file))
    ok, failing, wall = vlib.apalache_steps(sub, "CoinswapBig", "CoinswapClauses", CS_FIELDS, rows, CS_STEPOK)
    if failing:
        r = rows[failing[0]]
        log(f"replay: {r['op']} history {r['hist']} step {r['step']} violates the C01 clauses")
        print(f"VIOLATION property={pid} replay={path}", flush=True)
        return 1
    log("replay: all rows satisfy the C01 clauses")
    return 0


def coinswap_lemmas(check, pid, tier, seed, work):
    """DESIGN 4.4: unbounded lemmas — for ALL natural reserves, amounts and fees the
    transcribed price functions satisfy the C01 leg clauses (Apalache, length 0).
    A timeout is 'not proved' and changes nothing; a refuted lemma means the
    specification's own formulas break the clause and is reported as inconclusive."""
    sub = os.path.join(work, "lemmas")
    os.makedirs(sub, exist_ok=True)
    vlib.copy_specs(sub)
    proved, notproved = [], []
    for mod, inv in (("CoinswapLemmas.tla", "Lemma_InputPrice"), ("CoinswapLemmas.tla", "Lemma_OutputPrice"),
                     ("CoinswapLemmas2.tla", "Lemma_AddLiquidity"), ("CoinswapLemmas2.tla", "Lemma_RemoveLiquidity"),
                     ("CoinswapLemmas2.tla", "Lemma_AddUnilateral"), ("CoinswapLemmas2.tla", "Lemma_RemoveUnilateral")):
        try:
            p = subprocess.run(["apalache-mc", "check", "--length=0", "--init=Init", "--next=Next", f"--inv={inv}",
                                f"--out-dir={os.path.join(sub, '_apalache-out')}", mod], cwd=sub,
                               capture_output=True, text=True, timeout=240)
            out = p.stdout + p.stderr
        except subprocess.TimeoutExpired:
            out = ""
        if "The outcome is: NoError" in out:
            proved.append(inv)
        elif "The outcome is: Error" in out:
            raise Inconclusive(f"unbounded lemma {inv} is refuted: the transcribed price formula violates a C01 leg clause")
        else:
            notproved.append(inv)
    log(f"[lemmas] proved for all naturals (Apalache/Z3): {proved}; not proved: {notproved}")
    return [], {"lemmas_proved": proved, "lemmas_not_proved": notproved}


if "C01" in props.PROPS:
    props.PROPS["C01"].post.append(coinswap_lemmas)
    props.PROPS["C01"].post.append(coinswap_big)
    props.PROPS["C01"].big_replay = coinswap_big_replay

def token_lemmas(check, pid, tier, seed, work):
    """Unbounded lemma for the (repaired) LossLessSwap in exact rational arithmetic."""
    sub = os.path.join(work, "lemmas")
    os.makedirs(sub, exist_ok=True)
    vlib.copy_specs(sub)
    proved, notproved = [], []
    try:
        p = subprocess.run(["apalache-mc", "check", "--length=0", "--init=Init", "--next=Next", "--inv=Lemma_LossLess",
                            f"--out-dir={os.path.join(sub, '_apalache-out')}", "TokenLemmas.tla"], cwd=sub,
                           capture_output=True, text=True, timeout=240)
        out = p.stdout + p.stderr
    except subprocess.TimeoutExpired:
        out = ""
    if "The outcome is: NoError" in out:
        proved.append("Lemma_LossLess")
    elif "The outcome is: Error" in out:
        raise Inconclusive("unbounded lemma Lemma_LossLess is refuted")
    else:
        notproved.append("Lemma_LossLess")
    log(f"[lemmas] proved for all naturals (Apalache/Z3): {proved}; not proved: {notproved}")
    return [], {"lemmas_proved": proved, "lemmas_not_proved": notproved}


if "C10" in props.PROPS:
    props.PROPS["C10"].post.append(token_lemmas)
    props.PROPS["C10"].post.append(token_big)
    props.PROPS["C10"].big_replay = token_big_replay


# ---------------------------------------------------------------------------
# C09 big-number tier: the token module on the real chain with maxima up to
# MaxUint64 main units and scales up to 18 (harness/cmd/tokencap); the
# CapClauses.tla operators Token.tla's C09_Cap / C09_Burned are made of.
CAP_FIELDS = [("op", "Str"), ("ok", "Bool"), ("isOwner", "Bool"), ("mintable", "Bool"), ("max", "Int"), ("max2", "Int"),
              ("newMax", "Int"), ("w", "Int"), ("circ", "Int"), ("circ2", "Int"), ("amt", "Int"),
              ("burned", "Int"), ("burned2", "Int"), ("bal", "Int"), ("bal2", "Int")]
CAP_STEPOK = """  /\\ CapKeptW(s.circ, s.max, s.circ2, s.max2, s.w)
  /\\ (s.op = "Edit" => EditMaxW(s.ok, s.newMax, s.max2, s.w, s.circ2))
  /\\ ((s.op = "Burn" /\\ s.ok) => BurnExactW(s.amt, s.burned, s.burned2, s.circ, s.circ2, s.bal, s.bal2))
  /\\ TallyW(s.burned, s.burned2, s.op = "Burn" /\\ s.ok)
  /\\ ((s.op \\in {"Mint", "Edit", "Transfer"} /\\ s.ok) => s.isOwner)
  /\\ ((s.op = "Mint" /\\ s.ok) => s.mintable)
  /\\ ((s.circ2 > s.circ) => (s.ok /\\ s.op \\in {"Mint", "Issue"}))
  /\\ ((s.max2 # s.max) => (s.ok /\\ s.op = "Edit"))
  /\\ ((~s.ok) => (s.circ2 = s.circ /\\ s.burned2 = s.burned /\\ s.bal2 = s.bal))"""
CAP_SIZES = {"quick": (4, 6), "thorough": (24, 30)}


def _cap_rows(seed, n, ln, out):
    p = subprocess.run([vlib.harness_bin("tokencap"), "rows", "-seed", str(seed), "-n", str(n), "-len", str(ln), "-out", out],
                       capture_output=True, text=True, timeout=1200)
    if p.returncode != 0:
        raise Inconclusive("harness-tokencap failed: " + p.stderr[-1000:])
    return json.load(open(out))


def _cap_text(r):
    return (f"{r['op']} on {r['sym']} by {r['who']} (history {r['hist']} step {r['step']}, ok={r['ok']}): max {r['max']} -> {r['max2']} "
            f"main units of {r['w']} min units, circulating {r['circ']} -> {r['circ2']}, amount {r['amt']}, "
            f"burned {r['burned']} -> {r['burned2']}")


def token_cap_big(check, pid, tier, seed, work):
    """C09: issue / mint / burn / edit / transfer-owner on the real chain with
    maximum supplies up to MaxUint64 main units, scales 0..18, mints landing
    exactly on the cap and one beyond, fractional burns, the maximum lowered to
    what circulates and one below."""
    vlib.build_harness("tokencap")
    sub = os.path.join(work, "capbig")
    os.makedirs(sub, exist_ok=True)
    vlib.copy_specs(sub)
    n, ln = CAP_SIZES[tier]
    rows = _cap_rows(seed, n, ln, os.path.join(sub, "caprows.json"))
    ok, failing, wall = vlib.apalache_steps(sub, "TokenCapBig", "CapClauses", CAP_FIELDS, rows, CAP_STEPOK)
    atcap = sum(1 for r in rows if r["op"] == "Mint" and r["ok"] and int(r["circ2"]) == int(r["max2"]) * int(r["w"]))
    cov = {"big_steps": len(rows), "big_steps_ok": ok, "big_mints_to_cap": atcap, "big_wall_s": round(wall, 1),
           "big_rule": "rows = token messages (issue, mint, burn, edit, transfer-owner; accepted and rejected) executed on the "
                       "real chain with maxima up to MaxUint64 main units, scales 0/1/6/18, amounts up to MaxUint64*10^18; one "
                       "row per message with maximum, circulating amount, burned tally and sender balance before/after; "
                       "clauses of CapClauses.tla (the operators of C09_Cap / C09_Burned) and the authority / rejection "
                       "conditions evaluated by Apalache 0.58 / Z3",
           "big_samples": rows[:2]}
    log(f"[big] {len(rows)} big-number rows ({atcap} mints exactly to the cap) from the real chain evaluated by Apalache: "
        f"{ok} ok, {len(failing)} failing ({wall:.0f}s)")
    viol = []
    if failing:
        os.makedirs(os.path.join(ROOT, "replays"), exist_ok=True)
        path = os.path.join(ROOT, "replays", f"{pid}-{tier}-seed{seed}.bigrows.json")
        json.dump({"seed": seed, "n": n, "len": ln, "failing": [rows[i] for i in failing]}, open(path, "w"), indent=1)
        viol.append((path, "big-number row violates the C09 clauses: " + _cap_text(rows[failing[0]])))
    return viol, cov


def token_cap_big_replay(check, pid, path, work, seed):
    """Re-run the recorded driver run (same seed and sizes) on the real chain and evaluate again."""
    meta = json.load(open(path))
    vlib.build_harness("tokencap")
    sub = os.path.join(work, "capreplay")
    os.makedirs(sub, exist_ok=True)
    vlib.copy_specs(sub)
    rows = _cap_rows(meta["seed"], meta["n"], meta["len"], os.path.join(sub, "caprows.json"))
    ok, failing, wall = vlib.apalache_steps(sub, "TokenCapBig", "CapClauses", CAP_FIELDS, rows, CAP_STEPOK)
    if failing:
        log("replay: " + _cap_text(rows[failing[0]]) + " violates the C09 clauses")
        print(f"VIOLATION property={pid} replay={path}", flush=True)
        return 1
    log("replay: all rows satisfy the C09 clauses")
    return 0


if "C09" in props.PROPS:
    props.PROPS["C09"].post.append(token_cap_big)
    props.PROPS["C09"].big_replay = token_cap_big_replay

PROPS = {}
TEXT = {}
