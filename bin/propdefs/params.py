"""Params: C16 (Params.tla / ParamsTrace.tla / harness/cmd/params)."""
import json, os, re
from concurrent.futures import ThreadPoolExecutor
import vlib
from vlib import log, Inconclusive
from props import ModuleCheck, T

MODS = ["coinswap", "farm", "htlc", "service", "token"]
CLAUSES = ["C16_Authority", "C16_StoredValid", "C16_NoAbort"]


class ParamsCheck(ModuleCheck):
    """ModuleCheck whose generator step enumerates the abstract parameter space
    per module (one TLC run per module, in parallel; PARAMS_MOD selects it) and
    replays every behaviour on the real code (sharded inside the harness)."""

    def run_gen(self, tier, work, seed):
        g = self.gen[tier][0]

        def one(m):
            sub = os.path.join(work, "gen-" + m)
            os.makedirs(sub, exist_ok=True)
            vlib.copy_specs(sub)
            rc, out = vlib.run_tlc(sub, self.spec, g["cfg"], workers=1, heap="4g", extra=["-seed", str(seed)],
                                   env={"PARAMS_MOD": m}, timeout=g.get("timeout", 1500))
            if "Model checking completed. No error has been found." not in out:
                raise Inconclusive(f"generator failed for {m}:\n" + out[-3000:])
            behs = [json.loads('"' + x + '"') for x in re.findall(r'^<<"BEHAVIOUR", "(.*)">>$', out, re.M)]
            if not behs:
                raise Inconclusive(f"generator produced no behaviours for {m}:\n" + out[-2000:])
            # refused records first: they leave the chain untouched and share one
            behs = sorted(set(behs), key=lambda b: ('"name":"Op"' in b, '"via":"initchain"' in b, b))
            beh = os.path.join(sub, "beh.ndjson")
            with open(beh, "w") as f:
                f.write("\n".join(behs) + "\n")
            tr = os.path.join(work, f"trace-gen-{m}.ndjson")
            vlib.run_harness(self.module, "replay", tr, inp=beh, cfg=f"shards={g.get('shards', 3)}")
            return len(behs), tr

        total, outs = 0, []
        with ThreadPoolExecutor(max_workers=len(MODS)) as ex:
            for n, tr in ex.map(one, MODS):
                total += n
                outs.append(tr)
        log(f"[gen] {total} TLC-generated behaviours (parameter records x senders x genesis x suite) replayed on the real code")
        return total, outs


GEN = T([dict(cfg="GEN_Params.cfg", shards=3)], [dict(cfg="GEN_Params_big.cfg", shards=4, timeout=3000)])
MC = T([dict(cfg="MC_Params.cfg", timeout=900, heap="4g", workers=6)], [dict(cfg="MC_Params_big.cfg", timeout=3400, heap="4g", workers=8)])
RND = T([dict(n=15, len=1, procs=4, cfg="")], [dict(n=150, len=1, procs=8, cfg="")])
SCN = [dict(file=f"scenarios/params_{f}.ndjson") for f in ("F14", "F18", "F19", "F21", "F22")]

PROPS = {
    "C16": ParamsCheck("params", "Params.tla", "ParamsTrace.tla", "ParamsTrace.cfg", CLAUSES,
                       MC, GEN, RND, scenarios=SCN,
                       required=["auth_ok", "auth_rej", "stranger_rej", "forger_rej", "genesis_ok", "genesis_refused",
                                 "chain_ok", "chain_refused", "op_ok", "op_rej"]
                                + ["suite_" + m for m in MODS] + ["update_" + m for m in MODS],
                       assumptions=["TLC 1.8, SANY, CommunityModules Json", "Go toolchain, cosmos-sdk baseapp/bank/auth",
                                    "harness concretisation of the abstract parameter values (harness/cmd/params/abs.go)",
                                    "the fixed operation suites stand for 'each operation' of the five modules"]),
}

TEXT = {
    "C16": dict(
        design="DESIGN.md 8 (C16), 3, 5, 6",
        text="Params.tla models the parameter record of coinswap, farm, htlc, service and token over abstract domains "
             "(decimals unset/neg/0/10^-18/0.5/1-10^-18/1/2/default, coins nil/neg/0/default/2^256-1/bad denom, integers "
             "neg/0/1/max, htlc asset lists with boundary limits, locks and fees), with each module's Params.Validate, "
             "MsgUpdateParams path (ValidateBasic, authority check, SetParams), InitGenesis path and the abort conditions "
             "of the fee/tax/swap arithmetic transcribed from the code.  TLC enumerates the parameter space x senders x "
             "update point x operation suite exhaustively (bounded by the number of fields deviating from the baseline) "
             "and checks authority, stored-valid and no-abort on the model; the same enumeration is emitted as "
             "behaviours and executed on the real application: updates from the authority (message router), from a "
             "stranger and from a forger (signed transactions), genesis imports (module InitGenesis on an empty store, "
             "and whole chains through InitChain), then a fixed suite of the module's messages and block handlers "
             "through the real ABCI path.  TLC validates every logged event: only the authority changes the stored "
             "bytes, what is stored passes the module's own Validate(), nothing refused by it is stored, and no suite "
             "operation that works under the baseline ends in a recovered panic (code 111222) or a halted block.",
        note="Trusted: TLC/SANY/Json, Go toolchain, the harness' concretisation table and read-back.  'Each operation' "
             "is a fixed suite per module (9-14 operations touching every place a parameter is consumed), run with the "
             "update placed before it and mid-life; the htlc baseline carries one supported asset so that cross-chain "
             "transfers exist under the baseline.  Quick tier bounds the number of fields deviating from the baseline per record: on the "
             "code side coinswap 2, farm 2, token 2, service 1, htlc 1; in the model coinswap all, farm all, token 3, "
             "service 2, htlc 2.  Thorough: code side all, all, 3, 2, 2; model all, all, all, 3, 3.  "
             "A nil decimal/amount makes Params.Validate itself panic (recovered; nothing stored) — logged, not a clause."),
}
