"""NFT: C14 (NFT.tla / NFTTrace.tla / harness/cmd/nft)."""
from props import ModuleCheck, T, bundled

NFT_CLAUSES = ["C14_Owner", "C14_ActOnlyOwner", "C14_OthersUntouched", "C14_MintRestricted",
               "C14_UpdateRestricted", "C14_ClassHandover", "C14_Ids", "C14_Supply", "Rejected_NoEffect"]

NFT_RND = T([dict(n=10, len=30, procs=8, cfg="users=3"), dict(n=6, len=40, procs=3, cfg="users=4")],
            [dict(n=80, len=40, procs=10, cfg="users=3"), dict(n=50, len=60, procs=4, cfg="users=4")])
# multi-message transactions (runs of one signer's messages delivered as one real transaction)
bundled(NFT_RND)
NFT_GEN = T([dict(cfg="GEN_NFT.cfg", num=10, depth=16, seeds=8)],
            [dict(cfg="GEN_NFT.cfg", num=60, depth=20, seeds=14)])
NFT_MC = T([dict(cfg="MC_NFT.cfg", timeout=900, heap="4g")], [dict(cfg="MC_NFT_big.cfg", timeout=3400, heap="4g")])
NFT_SCN = [dict(file="scenarios/nft_coverage.ndjson", cfg="users=3")]

# histories recorded (VERIF_RECORD_DIR) for the cross-module checks C11 / C12
RECORD = [dict(binary="nft", n=T(3, 12), len=30, cfg="users=3" + ",bundle=30")]

PROPS = {
    "C14": ModuleCheck("nft", "NFT.tla", "NFTTrace.tla", "NFTTrace.cfg", NFT_CLAUSES,
                       NFT_MC, NFT_GEN, NFT_RND, scenarios=NFT_SCN,
                       required=["issue_ff", "issue_ft", "issue_tf", "issue_tt",
                                 "mint_ok", "mint_restricted_ok", "mint_restricted_rej", "remint",
                                 "edit_ok", "edit_stranger_rej", "edit_restricted_rej", "edit_keep",
                                 "transfer_ok", "transfer_changes_ok", "transfer_restricted_changes_rej",
                                 "transfer_restricted_plain_ok", "transfer_self", "transfer_stranger_rej",
                                 "burn_ok", "burn_stranger_rej", "handover_ok", "handover_stranger_rej",
                                 "handover_then_mint", "old_creator_mint_rej"],
                       gen_cfg="users=3",
                       assumptions=["TLC 1.8, SANY, CommunityModules Json", "Go toolchain, cosmos-sdk baseapp",
                                    "harness projection through the module's own query endpoints",
                                    "closed universe of accounts, class ids and token ids per trace"]),
}

TEXT = {
    "C14": dict(
        design="DESIGN.md 8 (C14), 3",
        text="NFT.tla transcribes the nft module (msg_server.go, denom.go, nft.go and the x/nft keeper "
             "underneath: token record, owner key, owner index and supply counter as separate entries) "
             "operation by operation. TLC checks the clauses Owner, ActOnlyOwner, OthersUntouched (frame), "
             "MintRestricted, UpdateRestricted (incl. the do-not-modify sentinel), ClassHandover, Ids, Supply "
             "and Rejected_NoEffect exhaustively for 2 classes x all flag combinations, 3 tokens, 3 users "
             "(entitled actors and strangers), then generates behaviours that are executed on the real "
             "application together with seeded random histories (prefix-related ids, transfer to self, burn "
             "and re-mint, handover then mint, empty / sentinel / changed metadata). After every transaction "
             "the harness queries Denom, NFT, NFTsOfOwner, Supply(class), Supply(class, owner) and Collection "
             "over the closed universe; TLC validates every event against the clauses (verdict) and against "
             "the specification's step function (drift).",
        note="Trusted: TLC/SANY/CommunityModules Json, Go toolchain, the harness projection (query endpoints "
             "of the module). Recipients and owners are accounts of the closed universe. X14_* clauses "
             "(named recipient becomes owner/creator, collection = per-token view, registered supply "
             "invariant) are diagnostics outside the property statement."),
}
