"""NFT: C14 (NFT.tla / NFTTrace.tla / harness/cmd/nft)."""
from props import ModuleCheck, T, bundled

NFT_CLAUSES = ["C14_Owner", "C14_ActOnlyOwner", "C14_OthersUntouched", "C14_MintRestricted",
               "C14_UpdateRestricted", "C14_ClassHandover", "C14_Ids", "C14_Supply", "Rejected_NoEffect",
               # round 7: the same statements read off the raw store (token records, owner keys, owner index of
               # every address, supply counters) next to the query results
               "C14_StoreOwner", "C14_StoreSupply",
               # audit after round 7: the same antecedents / expected values taken from the ledger of the ACCEPTED
               # MESSAGES (ghosts own, hcls) instead of the module's own owner keys, flags and creators
               "C14_HistOwner", "C14_HistAct", "C14_HistRestricted", "C14_HistSupply"]

# negative probing / unusual inputs (round 7): antecedents exercised on every run by scenarios/nft_probe.ndjson
# (written by scenarios/nft_mk_probe.py; driver cfg pre=1 = the IBC-style class "ibc/abc" in the genesis state)
NFT_PROBE_REQUIRED = [
    "issue_bad_id_rej", "issue_keyword_rej", "issue_sentinel_id_rej", "issue_len101_ok", "issue_len102_rej",
    "issue_case_variant_ok", "issue_prefix_ok", "mint_ibc_rej", "ibc_edit_ok", "ibc_transfer_ok", "ibc_burn_ok",
    "ibc_handover_ok", "ibc_stranger_rej", "mint_bad_token_id_rej", "mint_sentinel_token_id_rej",
    "mint_len101_token_ok", "mint_len102_token_rej", "mint_uri256_ok", "mint_uri257_rej", "edit_uri257_rej",
    "transfer_uri257_rej", "mint_badjson_rej", "edit_badjson_rej", "transfer_badjson_rej",
    "mint_sentinel_name_ok", "mint_to_module_ok", "transfer_to_module_ok", "handover_to_module_ok",
    "module_sender_rej", "module_owned_token_rej", "mint_prefix_token_ok", "mint_case_token_ok",
    "mint_token_named_as_class_ok", "op_prefix_token_rej", "op_case_token_rej", "op_prefix_class_rej",
    "op_case_class_rej", "op_other_class_token_rej", "edit_burned_rej", "transfer_burned_rej",
    "burn_burned_rej", "exowner_on_burned_rej", "exowner_on_moved_rej", "edit_never_minted_rej",
    "transfer_never_minted_rej", "burn_never_minted_rej", "op_no_class_rej", "mint_no_class_rej",
    "handover_no_class_rej", "creator_on_foreign_token_rej", "token_owner_handover_rej",
    "excreator_handover_rej", "remint_other_owner", "remint_after_handover", "mint_restricted_empty_rej",
    "edit_each_field", "edit_all_keep_ok", "transfer_keep_all_restricted_ok", "handover_to_self_ok",
    "issue_by_module_rej", "probe_state_rej"]

# random histories mix "sensible" events with probes (every message x object state x role x ids of the wrong kind,
# harness/cmd/nft/random.go; probe=<pct>, default 35); pre=1 starts from a genesis state holding an IBC-style class
NFT_RND = T([dict(n=10, len=30, procs=5, cfg="users=3"), dict(n=10, len=30, procs=4, cfg="users=3,pre=1"),
             dict(n=6, len=40, procs=3, cfg="users=4,pre=1,probe=60")],
            [dict(n=80, len=40, procs=6, cfg="users=3"), dict(n=80, len=40, procs=6, cfg="users=3,pre=1"),
             dict(n=50, len=60, procs=4, cfg="users=4,pre=1,probe=60")])
# multi-message transactions (runs of one signer's messages delivered as one real transaction)
bundled(NFT_RND)
# second generator mode (round 7, negative probing): GenSpecP over a universe of related / odd ids, the IBC-style
# class and the module account; every behaviour ends with four events the specification REJECTS; the replay's
# epilogue (every token moved and burned by the owner the REAL store records, every class handed over by its
# recorded creator) follows up whatever the code accepted
NFT_GEN = T([dict(cfg="GEN_NFT.cfg", num=10, depth=16, seeds=6),
             dict(cfg="GEN_NFT_probe.cfg", num=6, depth=22, seeds=4, driver_cfg="users=3,pre=1")],
            [dict(cfg="GEN_NFT.cfg", num=60, depth=20, seeds=14),
             dict(cfg="GEN_NFT_probe.cfg", num=40, depth=26, seeds=8, driver_cfg="users=3,pre=1"),
             dict(cfg="GEN_NFT_probe.cfg", num=40, depth=16, seeds=3, driver_cfg="users=3,pre=1")])
NFT_MC = T([dict(cfg="MC_NFT.cfg", timeout=900, heap="4g")], [dict(cfg="MC_NFT_big.cfg", timeout=3400, heap="4g")])
NFT_SCN = [dict(file="scenarios/nft_coverage.ndjson", cfg="users=3"),
           dict(file="scenarios/nft_probe.ndjson", cfg="users=3,pre=1"),
           # regression of F37 (fixed in /repo 19c5b32): a transfer carrying a 257-byte uri is refused
           dict(file="scenarios/nft_longuri.ndjson", cfg="users=3")]

# histories recorded (VERIF_RECORD_DIR) for the cross-module checks C11 / C12
RECORD = [dict(binary="nft", n=T(3, 12), len=30, cfg="users=3" + ",bundle=30")]

PROPS = {
    "C14": ModuleCheck("nft", "NFT.tla", "NFTTrace.tla", "NFTTrace.cfg", NFT_CLAUSES,
                       NFT_MC, NFT_GEN, NFT_RND, scenarios=NFT_SCN,
                       required=["issue_ff", "issue_ft", "issue_tf", "issue_tt",
                                 "mint_ok", "mint_restricted_ok", "mint_restricted_rej", "remint",
                                 "edit_ok", "edit_stranger_rej", "edit_restricted_rej", "edit_keep",
                                 "transfer_ok", "transfer_changes_ok", "transfer_restricted_changes_rej",
                                 "transfer_restricted_plain_ok", "transfer_self", "transfer_stranger_rej",
                                 "burn_ok", "burn_stranger_rej", "handover_ok", "handover_stranger_rej",
                                 "handover_then_mint", "old_creator_mint_rej"] + NFT_PROBE_REQUIRED,
                       gen_cfg="users=3",
                       assumptions=["TLC 1.8, SANY, CommunityModules Json", "Go toolchain, cosmos-sdk baseapp",
                                    "harness projection through the module's own query endpoints",
                                    "harness scan of the nft store (x/nft key layout) for the C14_Store* clauses",
                                    "closed universe of accounts per trace (other owners appear by address in the store scan)",
                                    "id validation outcomes tabulated in NFT.tla for the ids the drivers use"]),
}

TEXT = {
    "C14": dict(
        design="DESIGN.md 8 (C14), 3",
        text="NFT.tla transcribes the nft module (msg_server.go, denom.go, nft.go and the x/nft keeper "
             "underneath: token record, owner key, owner index and supply counter as separate entries) "
             "operation by operation. TLC checks the clauses Owner, ActOnlyOwner, OthersUntouched (frame), "
             "MintRestricted, UpdateRestricted (incl. the do-not-modify sentinel), ClassHandover, Ids, Supply "
             "and Rejected_NoEffect exhaustively for 2 classes x all flag combinations, 3 tokens, 3 users "
             "(entitled actors and strangers), then generates behaviours that are executed on the real "
             "application together with seeded random histories (prefix-related ids, transfer to self, burn "
             "and re-mint, handover then mint, empty / sentinel / changed metadata). After every transaction "
             "the harness queries Denom, NFT, NFTsOfOwner, Supply(class), Supply(class, owner) and Collection "
             "over the closed universe; TLC validates every event against the clauses (verdict) and against "
             "the specification's step function (drift). Round 7 (negative probing): the store itself is scanned "
             "after every event (class keys, token records, owner keys, owner index of every address, supply "
             "counters) and the clauses StoreOwner / StoreSupply state one-owner-per-token and reported supply = "
             "number of token records = sum of holdings on it; the queries are read page by page (two entries a "
             "page); drivers probe every message x object state (class not issued / each flag combination / "
             "handed over; token never minted / moved / burned / minted again / under another class only) x role "
             "(owner, previous owner, creator, previous creator, stranger, module account) x ids of the wrong kind "
             "(prefixes, case variants, IBC-style and reserved ids, length limits, the sentinel as id) and the "
             "sentinel / out-of-range values in every metadata field; a second generator mode ends every "
             "behaviour with four rejected events; an epilogue computed from the real store closes every history.",
        note="Trusted: TLC/SANY/CommunityModules Json, Go toolchain, the harness projection (query endpoints "
             "of the module). Recipients and owners are accounts of the closed universe. X14_* clauses "
             "(named recipient becomes owner/creator, collection = per-token view, registered supply "
             "invariant) are diagnostics outside the property statement."),
}
