"""Random: C18 (+ the random part of C13) — Random.tla / RandomTrace.tla / harness/cmd/random."""
from props import ModuleCheck, T, bundled

RANDOM_CLAUSES_C18 = ["C18_Due", "C18_Once", "C18_Range", "C18_Pure", "C18_Stable"]
# the pending-request queue clauses of C13 carried by the same traces
C13_CLAUSES_RANDOM = ["C13_QueueSound_Random", "C13_QueueComplete_Random", "C13_OnceOnTime_Random", "C13_NoHalt"]

RANDOM_RND = T(
    [dict(n=8, len=25, procs=6, cfg="users=3,provs=2,funds=25,timeout=2"),
     dict(n=8, len=25, procs=6, cfg="users=2,provs=1,funds=35,timeout=3,maxn=4"),
     dict(n=5, len=25, procs=2, cfg="users=3,provs=1,bound=0,funds=25,timeout=2,zh=1")],
    [dict(n=60, len=30, procs=7, cfg="users=3,provs=2,funds=25,timeout=2"),
     dict(n=60, len=40, procs=7, cfg="users=4,provs=1,funds=35,timeout=3,maxn=5"),
     dict(n=30, len=40, procs=4, cfg="users=3,provs=1,bound=0,funds=25,timeout=2,zh=1")])
# multi-message transactions (runs of one signer's messages delivered as one real transaction)
bundled(RANDOM_RND)
RANDOM_GEN = T([dict(cfg="GEN_Random.cfg", num=16, depth=22, seeds=10)],
               [dict(cfg="GEN_Random.cfg", num=60, depth=26, seeds=14)])
RANDOM_MC = T([dict(cfg="MC_Random.cfg", timeout=1500),
               # restart from a zero-height export (model-level PrepForZeroHeightGenesis / export / import)
               dict(cfg="MC_Random_zh.cfg", timeout=1500)],
              [dict(cfg="MC_Random_big.cfg", timeout=3400),
               dict(cfg="MC_Random_zh.cfg", timeout=1500)])
# MC_Random_live.cfg (LiveSpec / Live_Fulfilled) is exploratory and in no tier.
RANDOM_GEN_CFG = "users=2,provs=1,funds=25,timeout=2,price=10"
# fixed coverage suite: exercises every required antecedent whatever the seed
RANDOM_SCN = [dict(file="scenarios/random_cover.ndjson", cfg=RANDOM_GEN_CFG),
              # beyond C18 (diagnostic clauses X18_*): shared ids, late answers, zero-height restart; wrapping intervals (regression of beca1b5: refused)
              dict(file="scenarios/random_dup.ndjson", cfg=RANDOM_GEN_CFG),
              dict(file="scenarios/random_wrap.ndjson", cfg=RANDOM_GEN_CFG),
              dict(file="scenarios/random_zh.ndjson", cfg="users=2,provs=1,bound=0,funds=25,timeout=2,price=10")]

# histories recorded (VERIF_RECORD_DIR) and replayed by the cross-module checks C11 / C12
RECORD = [dict(binary="random", n=T(3, 12), len=25, cfg="users=3,provs=2,funds=25,timeout=2" + ",bundle=30")]

PROPS = {
    "C18": ModuleCheck("random", "Random.tla", "RandomTrace.tla", "RandomTrace.cfg", RANDOM_CLAUSES_C18,
                       RANDOM_MC, RANDOM_GEN, RANDOM_RND, scenarios=RANDOM_SCN,
                       required=["req_ok", "req_oracle_ok", "fulfil_block", "fulfil_oracle", "same_height_many",
                                 "drop_err", "drop_timeout", "dup_id",
                                 # beyond C18
                                 "dup_replace", "dup_orphan", "dup_rewrite", "late_answer", "wrap", "zero_height"],
                       gen_cfg=RANDOM_GEN_CFG,
                       assumptions=["TLC 1.8, SANY, CommunityModules Json", "Go toolchain, crypto/sha256, math/big",
                                    "harness projection functions (raw prefix scans of the random store, service getters)",
                                    "the PRNG is evaluated in Go: the trace carries booleans, SHA-256 is not modelled"]),
}

TEXT = {
    "C18": dict(
        design="DESIGN.md 8 (C18, C13), 3",
        text="Random.tla transcribes RequestRandom, the begin-blocker and the service callbacks of the random module "
             "together with the slice of the service module they sit on (paused one-provider request context, start "
             "in begin-block, fee deduction / automatic pause, response, expiry, refund). TLC checks the clauses "
             "Due / Once / Stable and the queue clauses exhaustively on a bounded universe, generates behaviours "
             "that are executed on the real application through the real ABCI path (the harness plays the "
             "providers: seed, error, invalid body, no answer) together with seeded random histories; every event "
             "of every real trace is validated by TLC against the clauses (verdict) and against the "
             "specification's step function (drift). Range and Pure are decided per generated value by the harness "
             "(decimal syntax; exported MakePRNG(previous app hash, block time, requester, seed).GetRand()) and "
             "enter the trace as booleans.",
        note="Trusted: TLC/SANY/CommunityModules Json, Go toolchain, the harness projection. Requests of one consumer "
             "in one block share an id by construction and are excluded from Due/Once/Stable as the property's "
             "quantifier says (they are driven and logged anyway). SHA-256 and big-number reduction are not "
             "modelled: Pure compares with the module's own exported generator on independently logged inputs; an "
             "independent re-implementation in the harness is compared in strict mode only (drift)."),
}
