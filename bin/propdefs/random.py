"""Random: C18 (+ the random part of C13) — Random.tla / RandomTrace.tla / harness/cmd/random."""
from props import ModuleCheck, T, bundled

RANDOM_CLAUSES_C18 = ["C18_Due", "C18_Once", "C18_Range", "C18_Pure", "C18_Stable"]
# the pending-request queue clauses of C13 carried by the same traces
C13_CLAUSES_RANDOM = ["C13_QueueSound_Random", "C13_QueueComplete_Random", "C13_OnceOnTime_Random", "C13_NoHalt"]

RANDOM_RND = T(
    # far=1: block intervals at and around the largest accepted one (due height MaxInt64, logged as 2^30)
    [dict(n=8, len=25, procs=6, cfg="users=3,provs=2,funds=25,timeout=2,far=1"),
     dict(n=8, len=25, procs=6, cfg="users=2,provs=1,funds=35,timeout=3,maxn=4,far=1"),
     dict(n=5, len=25, procs=2, cfg="users=3,provs=1,bound=0,funds=25,timeout=2,zh=1")],
    [dict(n=60, len=30, procs=7, cfg="users=3,provs=2,funds=25,timeout=2,far=1"),
     dict(n=60, len=40, procs=7, cfg="users=4,provs=1,funds=35,timeout=3,maxn=5,far=1"),
     dict(n=30, len=40, procs=4, cfg="users=3,provs=1,bound=0,funds=25,timeout=2,zh=1")])
# multi-message transactions (runs of one signer's messages delivered as one real transaction)
bundled(RANDOM_RND)
# second generator mode (round 7, negative probing): GenSpecP = accepted events on the way (seeds written down in unusual
# ways, malformed seeds of every kind, intervals up to the largest accepted one; at most three messages per block), then
# four events the specification REJECTS, aimed at the state reached; two provider accounts, one of them unbound
_PROBE_DRV = "users=2,provs=2,bound=1,funds=25,timeout=2,price=10"
RANDOM_GEN = T([dict(cfg="GEN_Random.cfg", num=16, depth=22, seeds=10),
                dict(cfg="GEN_Random_probe.cfg", num=8, depth=28, seeds=4, driver_cfg=_PROBE_DRV)],
               [dict(cfg="GEN_Random.cfg", num=60, depth=26, seeds=14),
                dict(cfg="GEN_Random_probe.cfg", num=40, depth=32, seeds=10, driver_cfg=_PROBE_DRV),
                dict(cfg="GEN_Random_probe.cfg", num=40, depth=20, seeds=4, driver_cfg=_PROBE_DRV)])
RANDOM_MC = T([dict(cfg="MC_Random.cfg", timeout=1500),
               # restart from a zero-height export (model-level PrepForZeroHeightGenesis / export / import)
               dict(cfg="MC_Random_zh.cfg", timeout=1500)],
              [dict(cfg="MC_Random_big.cfg", timeout=3400),
               dict(cfg="MC_Random_zh.cfg", timeout=1500)])
# MC_Random_live.cfg (LiveSpec / Live_Fulfilled) is exploratory and in no tier.
RANDOM_GEN_CFG = "users=2,provs=1,funds=25,timeout=2,price=10"
# fixed coverage suite: exercises every required antecedent whatever the seed
RANDOM_SCN = [dict(file="scenarios/random_cover.ndjson", cfg=RANDOM_GEN_CFG),
              # beyond C18 (diagnostic clauses X18_*): shared ids, late answers, zero-height restart; wrapping intervals (regression of beca1b5: refused)
              dict(file="scenarios/random_dup.ndjson", cfg=RANDOM_GEN_CFG),
              dict(file="scenarios/random_wrap.ndjson", cfg=RANDOM_GEN_CFG),
              dict(file="scenarios/random_zh.ndjson", cfg="users=2,provs=1,bound=0,funds=25,timeout=2,price=10"),
              # negative probing / unusual inputs (round 7; written by scenarios/random_mk_probe.py): every antecedent of
              # PROBE_REQUIRED on every run
              dict(file="scenarios/random_probe.ndjson", cfg="users=4,provs=2,bound=1,funds=60,timeout=2,price=10")]
PROBE_REQUIRED = (["seed_short_panic", "far_ok", "far_max", "far_rej", "cap_denom_rej", "cap_zero_rej", "insufficient_rej",
                   "interval0_ok", "interval1_ok", "respond_before_start", "respond_in_start_block", "respond_consumer",
                   "respond_wrong_provider", "respond_twice", "same_due_other_blocks", "same_due_consumers", "drop_badhex",
                   "plain_with_cap", "drop_funds", "skip_batch", "drop_bad"]
                  + ["ans_" + a for a in ("seed seed_upper seed_dupbody seed_extra seed_dupseed seed_ridlower bad bad_short "
                                          "bad_long bad_nonhex bad_num bad_extraprop bad_nobody bad_emptybody bad_duplastbad "
                                          "badhex short err err_err400 err_errout err_ridshort seed_emptyout seed_badresult "
                                          "seed_nohdr seed_ridshort").split()])
# the random part of C13 (zz_c13.py reads this name)
C13_REQUIRED = ["fulfil_block", "same_height_many", "same_due_other_blocks", "same_due_consumers", "drop_timeout", "drop_funds",
                "far_max", "far_rej", "wrap", "seed_short_panic"]

# histories recorded (VERIF_RECORD_DIR) and replayed by the cross-module checks C11 / C12
RECORD = [dict(binary="random", n=T(3, 12), len=25, cfg="users=3,provs=2,funds=25,timeout=2" + ",bundle=30")]

PROPS = {
    "C18": ModuleCheck("random", "Random.tla", "RandomTrace.tla", "RandomTrace.cfg", RANDOM_CLAUSES_C18,
                       RANDOM_MC, RANDOM_GEN, RANDOM_RND, scenarios=RANDOM_SCN,
                       required=["req_ok", "req_oracle_ok", "fulfil_block", "fulfil_oracle", "same_height_many",
                                 "drop_err", "drop_timeout", "dup_id",
                                 # beyond C18
                                 "dup_replace", "dup_orphan", "dup_rewrite", "late_answer", "wrap", "zero_height"]
                                + PROBE_REQUIRED,
                       gen_cfg=RANDOM_GEN_CFG,
                       assumptions=["TLC 1.8, SANY, CommunityModules Json", "Go toolchain, crypto/sha256, math/big",
                                    "harness projection functions (the module's gRPC queries for results by id and for the queue by "
                                    "height / as a whole, cross-checked with raw prefix scans of the random store; service getters)",
                                    "the PRNG is evaluated in Go: the trace carries booleans, SHA-256 is not modelled"]),
}

TEXT = {
    "C18": dict(
        design="DESIGN.md 8 (C18, C13), 3",
        text="Random.tla transcribes RequestRandom, the begin-blocker and the service callbacks of the random module "
             "together with the slice of the service module they sit on (paused one-provider request context, start "
             "in begin-block, fee deduction / automatic pause, response, expiry, refund). TLC checks the clauses "
             "Due / Once / Stable and the queue clauses exhaustively on a bounded universe, generates behaviours "
             "that are executed on the real application through the real ABCI path (the harness plays the "
             "providers: seed, error, invalid body, no answer) together with seeded random histories; every event "
             "of every real trace is validated by TLC against the clauses (verdict) and against the "
             "specification's step function (drift). Range and Pure are decided per generated value by the harness "
             "(decimal syntax; exported MakePRNG(previous app hash, block time, requester, seed).GetRand()) and "
             "enter the trace as booleans.",
        note="Trusted: TLC/SANY/CommunityModules Json, Go toolchain, the harness projection. Requests of one consumer "
             "in one block share an id by construction and are excluded from Due/Once/Stable as the property's "
             "quantifier says (they are driven and logged anyway). SHA-256 and big-number reduction are not "
             "modelled: Pure compares with the module's own exported generator on independently logged inputs; an "
             "independent re-implementation in the harness is compared in strict mode only (drift). Round 7 (negative "
             "probing): a second generator mode ends every behaviour with four rejected events; the pending queue is read "
             "through the gRPC queries (by height, whole queue) and cross-checked with the raw store; 25 ways of writing a "
             "seed answer down (malformed seeds of every kind, duplicate members that the schema validator and the handler "
             "read differently - one of them makes the handler panic, findings/oraclerandom.md R7-1), answers before / in / "
             "after the due block, by strangers, twice; fee caps of the wrong kind; block intervals up to the largest accepted "
             "one (due height MaxInt64, logged additively as 2^30) are required antecedents exercised by "
             "scenarios/random_probe.ndjson."),
}
