"""C13 — begin/end block never halts; every time-bound object handled exactly once,
on time; queue entries <-> objects.  The clauses live in the module
specifications that own a queue (Farm, HTLC, Service, Random); each part reuses
that module's pipeline (MC + generated + random traces) restricted to its C13_*
clauses.  Loaded last (zz_) so that the module definitions exist."""
import copy
from props import AggregateCheck, PROPS


def part(base_pid, clauses, required):
    if base_pid not in PROPS:
        return None
    c = copy.copy(PROPS[base_pid])
    c.clauses = set(clauses)
    c.required = list(required)
    return c


_parts = [
    # the farm_lifecycle scenario scripts, on every run, several pools due at one height (one exactly used up,
    # one with one of two denoms used up, one never staked, one destroyed in that very block)
    part("C05", ["C13_QueueSound", "C13_QueueComplete", "C13_OnceOnTime", "C13_NoHalt"],
         ["refund", "refund_many", "refund_zero", "refund_many_one_zero", "refund_and_destroy_sameblock"]),
]
try:
    from propdefs_htlc import C13_CLAUSES_HTLC  # noqa
except Exception:
    C13_CLAUSES_HTLC = None

import sys, json, os
_allowed = set(json.load(open(os.path.join(os.path.dirname(os.path.dirname(os.path.abspath(__file__))), "c13_parts.json"))))
for modname, base, req in (("propdefs_htlc", "C03", []), ("propdefs_service", "C07", []), ("propdefs_random", "C18", [])):
    m = sys.modules.get(modname)
    if m is None or modname.replace("propdefs_", "") not in _allowed:
        continue
    names = [getattr(m, n) for n in dir(m) if n.startswith("C13_CLAUSES")]
    if names:
        _parts.append(part(base, names[0], getattr(m, "C13_REQUIRED", req)))

_parts = [p for p in _parts if p is not None]

PROPS = {"C13": AggregateCheck(_parts, assumptions=["as the module checks C05/C03/C07/C18"])}
TEXT = {"C13": dict(
    design="DESIGN.md 8 (C13)",
    text="The queue variables of the module specifications carry the clauses: no begin/end block halts "
         "(every block of every trace is executed inside recover()), every queue entry refers to an existing "
         "object at its due height, every object awaiting time-based processing has exactly one entry, and "
         "processing happens at the due height exactly once. Checked exhaustively by TLC in each module model "
         "(objects created, adjusted, destroyed in the block they fall due; several per height) and on every "
         "real-code trace of those modules' drivers.",
    note="Parts present: " + ", ".join(p.module for p in _parts) + ". Same trusted base as the module checks.")}
